package nsim

import (
	"fmt"
	"math/rand"
	"os"
	"sort"
	"strings"
	"testing"
	"testing/synctest"

	"github.com/couchbase/nitro"
	"github.com/couchbase/nitro/skiplist"
)

// Op is one generated operation: a kind and integer arguments.
type Op struct {
	K string `json:"k"`
	A []int  `json:"a,omitempty"`
}

func (o Op) Arg(i int) int {
	if i < len(o.A) {
		return o.A[i]
	}
	return 0
}

func (o Op) String() string {
	if len(o.A) == 0 {
		return o.K
	}
	parts := make([]string, len(o.A))
	for i, a := range o.A {
		parts[i] = fmt.Sprint(a)
	}
	return o.K + "(" + strings.Join(parts, ",") + ")"
}

// TaskPlan is the operation list of one harness task.
type TaskPlan struct {
	Name  string `json:"name"`
	Phase int    `json:"phase,omitempty"`
	Ops   []Op   `json:"ops"`
}

// Fault is one planned fault.
type Fault struct {
	Kind string `json:"kind"`
	A    []int  `json:"a,omitempty"`
	S    string `json:"s,omitempty"`
}

// Plan is everything that defines one run besides the code under test.
type Plan struct {
	Scenario string         `json:"scenario"`
	Seed     uint64         `json:"seed"`
	Knobs    map[string]int `json:"knobs"`
	Tasks    []TaskPlan     `json:"tasks"`
	Faults   []Fault        `json:"faults,omitempty"`
	Sched    SchedPlan      `json:"sched"`
}

func (p *Plan) Knob(name string, def int) int {
	if v, ok := p.Knobs[name]; ok {
		return v
	}
	return def
}

func (p *Plan) NumOps() int {
	n := 0
	for _, t := range p.Tasks {
		n += len(t.Ops)
	}
	return n
}

// Violation is one oracle failure. Sig identifies the violation class
// (property / rule / cause) independent of seed and schedule.
type Violation struct {
	Property string         `json:"property"`
	Sig      string         `json:"sig"`
	Detail   string         `json:"detail"`
	Hint     map[string]int `json:"hint,omitempty"` // knobs that restrict a replay to the failing case of an enumeration
}

// RunResult is what one simulated run reports.
type RunResult struct {
	Scenario     string         `json:"scenario"`
	Seed         uint64         `json:"seed"`
	Verdict      string         `json:"verdict"`
	Violations   []Violation    `json:"violations,omitempty"`
	TraceHash    string         `json:"trace_hash"`
	Steps        int            `json:"steps"`
	Picks        int            `json:"picks"`
	Preempts     int            `json:"preempts"`
	SimTimeNs    int64          `json:"sim_time_ns"`
	Probes       map[string]int `json:"probes,omitempty"`
	Faults       map[string]int `json:"faults,omitempty"`
	Inconclusive string         `json:"inconclusive,omitempty"`
	Diverged     int            `json:"diverged,omitempty"`
	SitePairs    []int          `json:"site_pairs,omitempty"` // packed a<<16|b
	Plan         *Plan          `json:"plan,omitempty"`
	Trace        []Seg          `json:"trace,omitempty"`
	Log          []string       `json:"log,omitempty"`
	Cases        map[string]int `json:"cases,omitempty"` // non-simulated case counters (pure input clauses)
}

// Env is handed to a scenario for one run.
type Env struct {
	S       *Sched
	Plan    *Plan
	Res     *RunResult
	T       *testing.T
	PlanRng *Rng
	Alloc   *GuardAlloc
	Hint    map[string]int // attached to violations reported while it is set
	Verbose bool
	obsHash uint64
	tmpDirs []string
}

func (e *Env) Violate(prop, sig, format string, args ...interface{}) {
	d := fmt.Sprintf(format, args...)
	for _, v := range e.Res.Violations {
		if v.Property == prop && v.Sig == sig {
			return
		}
	}
	e.Res.Violations = append(e.Res.Violations, Violation{Property: prop, Sig: sig, Detail: d, Hint: e.Hint})
	e.Logf("VIOLATION %s %s", prop, sig)
	if e.Verbose {
		// details may contain addresses: never part of the observation hash
		e.Res.Log = append(e.Res.Log, "  detail: "+d)
	}
}

func (e *Env) Probe(name string) { e.Res.Probes[name]++ }
func (e *Env) ProbeN(name string, n int) {
	if n != 0 {
		e.Res.Probes[name] += n
	}
}
func (e *Env) FaultFired(kind string) { e.Res.Faults[kind]++ }
func (e *Env) Case(name string, n int) { e.Res.Cases[name] += n }

// Logf records a line of the observed history. It also feeds the
// observation hash; it never draws from a PRNG and never reads a clock.
func (e *Env) Logf(format string, args ...interface{}) {
	line := fmt.Sprintf(format, args...)
	for i := 0; i < len(line); i++ {
		e.obsHash ^= uint64(line[i])
		e.obsHash *= 1099511628211
	}
	if e.Verbose {
		e.Res.Log = append(e.Res.Log, line)
	}
}

// TempDir creates a private directory that is removed after the run.
func (e *Env) TempDir() string {
	base := os.Getenv("NSIM_TMP")
	if base == "" {
		base = os.TempDir()
	}
	d, err := os.MkdirTemp(base, "nsim-run-")
	if err != nil {
		panic(err)
	}
	e.tmpDirs = append(e.tmpDirs, d)
	return d
}

// Scenario is a family of runs deciding one or more properties.
type Scenario struct {
	Name  string
	Props []string
	Gen   func(seed uint64, tier string) *Plan
	Run   func(env *Env)
}

var scenarios = map[string]*Scenario{}

func register(sc *Scenario) { scenarios[sc.Name] = sc }

func scenarioNames() []string {
	var n []string
	for k := range scenarios {
		n = append(n, k)
	}
	sort.Strings(n)
	return n
}

// RunPlan executes one plan inside a fresh synctest bubble.
func RunPlan(t *testing.T, sc *Scenario, plan *Plan, verbose bool) *RunResult {
	res := &RunResult{Scenario: sc.Name, Seed: plan.Seed, Probes: map[string]int{}, Faults: map[string]int{}, Cases: map[string]int{}}
	env := &Env{Plan: plan, Res: res, T: t, Verbose: verbose, obsHash: 1469598103934665603}
	func() {
		defer func() {
			if r := recover(); r != nil {
				msg := fmt.Sprint(r)
				if !strings.Contains(msg, "deadlock") || !strings.Contains(msg, "blocked goroutines remain") {
					// A panic of the root goroutine is a harness or oracle failure path:
					// oracles that expect panics recover them themselves.
					env.Violate(sc.Props[0], "panic:root", "%s", msg)
				}
			}
		}()
		synctest.Test(t, func(t *testing.T) {
			rand.Seed(int64(plan.Seed))
			nitro.VerifResetGlobals()
			s := NewSched(plan.Sched)
			env.S = s
			env.PlanRng = NewRng(plan.Seed, purposeLevel)
			s.Install()
			defer Uninstall()
			sc.Run(env)
		})
	}()
	Uninstall()
	for _, d := range env.tmpDirs {
		os.RemoveAll(d)
	}
	if env.S != nil {
		s := env.S
		res.TraceHash = fmt.Sprintf("%016x", s.TraceHash()^mix64(env.obsHash))
		res.Steps = s.Steps()
		res.Picks = s.Picks()
		res.Preempts = s.Preempts()
		res.SimTimeNs = int64(s.SimTime())
		res.Diverged = s.Diverged()
		if verbose {
			res.Trace = s.Trace()
		}
		pairs := make([]int, 0, len(s.sitePairs))
		for k := range s.sitePairs {
			pairs = append(pairs, packPair(k[0], k[1]))
		}
		sort.Ints(pairs)
		res.SitePairs = pairs
	}
	return res
}

func packPair(a, b int) int { return a<<16 | b }

// Finish translates a scheduler verdict into the result; returns true when
// the run reached quiescence.
func (e *Env) Finish(v Verdict, livenessProp string) bool {
	e.Res.Verdict = v.String()
	switch v {
	case VQuiescent:
		return true
	case VHang:
		if livenessProp != "" {
			e.Violate(livenessProp, "hang", "nothing runnable, unfinished: %v", e.S.Describe())
		} else {
			e.Res.Inconclusive = "hang"
		}
	case VBudget:
		e.Res.Inconclusive = "budget"
	case VAbort:
		why := e.S.AbortReason()
		prop := e.Res.Scenario
		if len(scenarios[e.Res.Scenario].Props) > 0 {
			prop = scenarios[e.Res.Scenario].Props[0]
		}
		if e.S.FaultAddr() != 0 && e.Alloc != nil {
			if d, freed := e.Alloc.DescribeAddr(e.S.FaultAddr()); d != "" {
				cls := "out-of-bounds"
				if freed {
					cls = "use-after-free"
					if strings.Contains(d, " node block") && e.S.SiteHits(skiplist.SiteInsertRelinkedMarked) > 0 {
						cls = "use-after-free/node-relinked-by-inserter-after-its-delete-was-flushed"
					}
				}
				e.Violate("C04", cls, "%s: %s; frames: %s", why, d, nitroFrames(e.S.AbortStack()))
			}
		}
		if len(e.Res.Violations) == 0 && e.Alloc != nil && (strings.Contains(why, "nil pointer dereference") || (e.S.Faulted() && e.S.FaultAddr() == 0)) {
			// with user-managed memory a fault at a non-canonical address (reported as
			// address 0) comes from a pointer read out of a poisoned (freed) block
			cls := "fault-through-poisoned-or-nil-pointer/" + firstNitroFrame(e.S.AbortStack())
			if e.S.SiteHits(skiplist.SiteInsertRelinkedMarked) > 0 {
				cls = "use-after-free/node-relinked-by-inserter-after-its-delete-was-flushed"
			}
			e.Violate("C04", cls, "%s; frames: %s", why, nitroFrames(e.S.AbortStack()))
		}
		if len(e.Res.Violations) == 0 && e.S.Faulted() {
			e.Violate("C04", "memory-fault/"+firstNitroFrame(e.S.AbortStack()), "%s; frames: %s", why, nitroFrames(e.S.AbortStack()))
		}
		if len(e.Res.Violations) == 0 {
			e.Violate(prop, "panic:"+panicClass(why), "%s", why)
		}
		if e.Verbose && e.S.AbortStack() != "" {
			e.Res.Log = append(e.Res.Log, "  stack: "+nitroFrames(e.S.AbortStack()))
		}
	}
	return false
}

func panicClass(msg string) string {
	if i := strings.Index(msg, ": "); i >= 0 {
		msg = msg[i+2:]
	}
	if len(msg) > 60 {
		msg = msg[:60]
	}
	// strip addresses and numbers so that the class is schedule independent
	var b strings.Builder
	for _, c := range msg {
		if c >= '0' && c <= '9' {
			continue
		}
		b.WriteRune(c)
	}
	return strings.TrimSpace(b.String())
}

// GenSched draws the schedule-search parameters of a run (swarm style).
func GenSched(r *Rng, seed uint64, estSteps int, stallSites []int) SchedPlan {
	sp := SchedPlan{Seed: seed, EstSteps: estSteps}
	switch x := r.Intn(10); {
	case x < 5:
		sp.Strategy = "random"
		sp.P = []float64{0.005, 0.02, 0.05, 0.1, 0.2, 0.5}[r.Intn(6)]
	case x < 8:
		sp.Strategy = "pct"
		sp.Depth = r.Range(1, 4)
	default:
		sp.Strategy = "random"
		sp.P = []float64{0.01, 0.05, 0.2}[r.Intn(3)]
		if len(stallSites) > 0 {
			sp.StallSite = stallSites[r.Intn(len(stallSites))]
			sp.StallNth = r.Range(1, 6)
			sp.StallLen = r.Range(3, 60)
			if r.Bool(0.3) {
				// a node stalled for a long time (whole phases pass meanwhile)
				sp.StallLen = r.Range(200, 3000)
			} else if r.Bool(0.5) {
				// two tasks stalled inside their windows at the same time (three-step races:
				// one parked before its CAS, the other between its read and its CAS)
				sp.Stall2Site = stallSites[r.Intn(len(stallSites))]
				sp.Stall2Nth = r.Range(1, 12)
				sp.Stall2Len = r.Range(2, 40)
				sp.StallNth = r.Range(1, 12)
			}
		}
	}
	sp.Bias = []string{"fair", "fair", "eager", "lazy"}[r.Intn(4)]
	if r.Bool(0.25) {
		// site subset: disable one or two site classes
		n := r.Range(1, 2)
		for i := 0; i < n; i++ {
			sp.Disabled = append(sp.Disabled, r.Intn(numClasses))
		}
	}
	sp.TickChance = []float64{0, 0.05, 0.3}[r.Intn(3)]
	return sp
}

// nitroFrames keeps the frames of a stack trace that lie in the code under test.
func nitroFrames(stack string) string {
	var out []string
	lines := strings.Split(stack, "\n")
	for i, l := range lines {
		if strings.Contains(l, "github.com/couchbase/nitro") && !strings.HasPrefix(l, "\t") {
			loc := ""
			if i+1 < len(lines) {
				loc = strings.TrimSpace(lines[i+1])
				if j := strings.Index(loc, " +0x"); j > 0 {
					loc = loc[:j]
				}
			}
			fn := l
			if j := strings.Index(fn, "("); j > 0 {
				fn = fn[:j]
			}
			out = append(out, fn+" "+loc)
		}
	}
	return strings.Join(out, " <- ")
}

func firstNitroFrame(stack string) string {
	lines := strings.Split(stack, "\n")
	for _, l := range lines {
		if strings.Contains(l, "github.com/couchbase/nitro") && !strings.HasPrefix(l, "\t") {
			fn := l
			if j := strings.LastIndex(fn, "("); j > 0 {
				fn = fn[:j]
			}
			if j := strings.LastIndex(fn, "/"); j >= 0 {
				fn = fn[j+1:]
			}
			return fn
		}
	}
	return "unknown"
}
