module nsim

go 1.26.8

require (
	github.com/anishathalye/porcupine v1.3.0
	github.com/couchbase/nitro v0.0.0
)

replace github.com/couchbase/nitro => /repo
