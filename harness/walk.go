package nsim

import (
	"fmt"
	"unsafe"

	"github.com/couchbase/nitro/skiplist"
)

// walkResult is what a structural walk of a skiplist measures (DESIGN 5.4).
type walkResult struct {
	Level0      []*skiplist.Node // every node linked at level 0 (marked or not), head/tail excluded
	Marked0     int
	PerHeight   [skiplist.MaxLevel + 1]int64
	Bytes       int64
	Problems    []string
	LinkedAbove map[*skiplist.Node]int // for each node: number of levels on which it is reachable
}

// walkSkiplist follows every level from head to tail with the non-yielding
// accessor and checks the structural invariants of C14. cmp must not yield.
// isLive, when non-nil, is consulted before a node is dereferenced (a freed
// node that is still reachable is reported instead of being read).
func walkSkiplist(sl *skiplist.Skiplist, cmp func(a, b unsafe.Pointer) int, isLive func(unsafe.Pointer) bool) *walkResult {
	w := &walkResult{LinkedAbove: map[*skiplist.Node]int{}}
	head, tail := sl.HeadNode(), sl.TailNode()
	const bound = 1 << 20
	var below map[*skiplist.Node]int // index of unmarked nodes on the level below
	top := skiplist.MaxLevel
	for l := 0; l <= top; l++ {
		var unmarked []*skiplist.Node
		n, _ := head.VerifNext(l)
		steps := 0
		for n != tail {
			if n == nil {
				w.Problems = append(w.Problems, fmt.Sprintf("chain-broken: level %d ends in nil before tail after %d nodes", l, steps))
				break
			}
			if isLive != nil && !isLive(unsafe.Pointer(n)) {
				w.Problems = append(w.Problems, fmt.Sprintf("freed-node-reachable: level %d reaches released node %p after %d nodes", l, n, steps))
				break
			}
			steps++
			if steps > bound {
				w.Problems = append(w.Problems, fmt.Sprintf("cycle: level %d did not reach tail within %d steps", l, bound))
				break
			}
			if n.Level() < l {
				w.Problems = append(w.Problems, fmt.Sprintf("height: node of height %d linked at level %d", n.Level(), l))
				break
			}
			next, marked := n.VerifNext(l)
			w.LinkedAbove[n]++
			if l == 0 {
				w.Level0 = append(w.Level0, n)
				w.PerHeight[n.Level()]++
				w.Bytes += int64(sl.Size(n))
				if marked {
					w.Marked0++
				}
			}
			if !marked {
				unmarked = append(unmarked, n)
			}
			n = next
		}
		// strictly increasing
		for i := 1; i < len(unmarked); i++ {
			if cmp(unmarked[i-1].Item(), unmarked[i].Item()) >= 0 {
				w.Problems = append(w.Problems, fmt.Sprintf("order: level %d not strictly increasing at position %d", l, i))
				break
			}
		}
		// sub-sequence of the level below
		if l > 0 {
			last := -1
			for _, n := range unmarked {
				idx, ok := below[n]
				if !ok {
					w.Problems = append(w.Problems, fmt.Sprintf("subsequence: unmarked node on level %d is not an unmarked node of level %d", l, l-1))
					break
				}
				if idx <= last {
					w.Problems = append(w.Problems, fmt.Sprintf("subsequence: level %d order differs from level %d", l, l-1))
					break
				}
				last = idx
			}
		}
		below = make(map[*skiplist.Node]int, len(unmarked))
		for i, n := range unmarked {
			below[n] = i
		}
	}
	// every live (unmarked at level 0) node is linked on all levels up to its height
	for _, n := range w.Level0 {
		if _, marked := n.VerifNext(0); marked {
			continue
		}
		if w.LinkedAbove[n] != n.Level()+1 {
			w.Problems = append(w.Problems, fmt.Sprintf("tower: live node of height %d is linked on %d levels", n.Level(), w.LinkedAbove[n]))
			break
		}
	}
	return w
}

// checkStats reconciles GetStats() with a walk.
func (w *walkResult) checkStats(sl *skiplist.Skiplist) []string {
	var p []string
	st := sl.GetStats()
	if st.NodeCount != len(w.Level0) {
		p = append(p, fmt.Sprintf("stats-node-count: GetStats().NodeCount=%d, walk finds %d nodes linked at level 0", st.NodeCount, len(w.Level0)))
	}
	for h := 0; h <= skiplist.MaxLevel; h++ {
		if st.NodeDistribution[h] != w.PerHeight[h] {
			p = append(p, fmt.Sprintf("stats-distribution: height %d: stats %d, walk %d", h, st.NodeDistribution[h], w.PerHeight[h]))
			break
		}
	}
	if st.SoftDeletes != int64(w.Marked0) {
		p = append(p, fmt.Sprintf("stats-soft-deletes: stats %d, walk finds %d marked nodes linked at level 0", st.SoftDeletes, w.Marked0))
	}
	if st.Memory != w.Bytes {
		p = append(p, fmt.Sprintf("stats-memory: stats %d bytes, walk measures %d", st.Memory, w.Bytes))
	}
	if sl.MemoryInUse() != w.Bytes {
		p = append(p, fmt.Sprintf("stats-memory-in-use: MemoryInUse()=%d, walk measures %d", sl.MemoryInUse(), w.Bytes))
	}
	return p
}

func problemClass(p string) string {
	for i := 0; i < len(p); i++ {
		if p[i] == ':' {
			return p[:i]
		}
	}
	return p
}

// dumpSkiplist renders every level (debugging aid for replays).
func dumpSkiplist(sl *skiplist.Skiplist, key func(unsafe.Pointer) string, isLive func(unsafe.Pointer) bool) []string {
	var out []string
	head, tail := sl.HeadNode(), sl.TailNode()
	for l := sl.VerifLevel() + 1; l >= 0; l-- {
		line := fmt.Sprintf("L%d: head", l)
		n, _ := head.VerifNext(l)
		for steps := 0; n != tail && steps < 200; steps++ {
			if n == nil {
				line += " -> NIL"
				break
			}
			if isLive != nil && !isLive(unsafe.Pointer(n)) {
				line += fmt.Sprintf(" -> FREED(%p)", n)
				break
			}
			next, marked := n.VerifNext(l)
			m := ""
			if marked {
				m = "*"
			}
			line += fmt.Sprintf(" -> %s%s/h%d@%x", key(n.Item()), m, n.Level(), uintptr(unsafe.Pointer(n))&0xfffff)
			n = next
		}
		out = append(out, line)
	}
	return out
}

// linkedAtLevel0 reports whether node n is reachable from head at level 0
// (non-yielding walk). After a successful Delete has returned its node must
// not be: skiplist iterators do not look at the mark of the node they step
// onto, so a scan starting now would return the deleted item (C15).
func linkedAtLevel0(sl *skiplist.Skiplist, n *skiplist.Node, isLive func(unsafe.Pointer) bool) bool {
	tail := sl.TailNode()
	steps := 0
	for c, _ := sl.HeadNode().VerifNext(0); c != nil && c != tail; {
		if c == n {
			return true
		}
		if isLive != nil && !isLive(unsafe.Pointer(c)) {
			return false
		}
		steps++
		if steps > 1<<20 {
			return false
		}
		c, _ = c.VerifNext(0)
	}
	return false
}
