package nsim

import (
	"fmt"
	"unsafe"

	"github.com/couchbase/nitro/skiplist"
)

// Scenario "barrier": the access barrier used directly (C16 safety, C17 liveness).

func init() {
	register(&Scenario{Name: "barrier", Props: []string{"C16", "C17"}, Gen: genBarrier, Run: runBarrier})
}

var barrierStallSites = []int{
	skiplist.SiteAcqInc, skiplist.SiteAcqLoad, skiplist.SiteFlushAdd, skiplist.SiteFlushSwap, skiplist.SiteRelLatch,
	skiplist.SiteRelInsert, skiplist.SiteRelTryLock, skiplist.SiteRelTryUnlock, skiplist.SiteCleanupIter,
	skiplist.SiteCleanupCallb, skiplist.SiteRelDec,
}

func genBarrier(seed uint64, tier string) *Plan {
	r := NewRng(seed, purposePlan)
	p := &Plan{Scenario: "barrier", Seed: seed, Knobs: map[string]int{}}
	ntasks := r.Range(2, 5)
	maxOps := 12
	// workload mix (swarm): flush-heavy, accessor-heavy, nested
	flushW := []int{1, 3, 6}[r.Intn(3)]
	for i := 0; i < ntasks; i++ {
		tp := TaskPlan{Name: fmt.Sprintf("b%d", i)}
		n := r.Range(1, maxOps)
		held := 0
		for j := 0; j < n; j++ {
			x := r.Intn(10)
			switch {
			case x < flushW:
				if r.Bool(0.25) {
					// a flush without an object (nitro's collection worker flushes nil for an
					// empty garbage list): the session still orders later destructions
					tp.Ops = append(tp.Ops, Op{K: "flushnil"})
				} else {
					tp.Ops = append(tp.Ops, Op{K: "flush"})
				}
			case held > 0 && x < flushW+3:
				tp.Ops = append(tp.Ops, Op{K: "rel", A: []int{r.Intn(held)}})
				held--
			case held < 3:
				tp.Ops = append(tp.Ops, Op{K: "acq"})
				held++
			default:
				tp.Ops = append(tp.Ops, Op{K: "rel", A: []int{r.Intn(held)}})
				held--
			}
		}
		p.Tasks = append(p.Tasks, tp)
	}
	p.Sched = GenSched(r, seed, 40*p.NumOps()+50, barrierStallSites)
	return p
}

type barTok struct {
	id      int
	task    int
	bs      *skiplist.BarrierSession
	acqRet  int64
	relCall int64
}

type barFlush struct {
	id       int
	task     int
	call     int64
	ret      int64
	lockSeq  int64
	destr    []int64
	ref      *int
	lockRank int
	nilRef   bool
}

func runBarrier(env *Env) {
	s := env.S
	pa := newPlainAlloc()
	var flushes []*barFlush
	var toks []*barTok
	destrOrder := []int{}
	nilDestr := 0
	cfg := skiplist.Config{
		ItemSize:      func(unsafe.Pointer) int { return 0 },
		UseMemoryMgmt: true,
		Malloc:        pa.Malloc,
		Free:          pa.Free,
		BarrierDestructor: func(ref unsafe.Pointer) {
			s.Yield(SiteHarnessCallback)
			if ref == nil {
				// the session of an object-less flush
				nilDestr++
				env.Logf("destr nil @%d", s.Seq())
				return
			}
			id := *(*int)(ref)
			f := flushes[id]
			f.destr = append(f.destr, s.Stamp())
			destrOrder = append(destrOrder, id)
			env.Logf("destr f%d @%d", id, s.Seq())
		},
	}
	sl := skiplist.NewWithConfig(cfg)
	ab := sl.GetAccesBarrier()

	lockRank := 0
	curFlush := map[*Task]*barFlush{}
	onLock := func(t *Task) {
		if f := curFlush[t]; f != nil && f.lockSeq == 0 {
			lockRank++
			f.lockRank = lockRank
			f.lockSeq = s.Stamp()
		}
	}
	s.OnLock = onLock

	for ti, tp := range env.Plan.Tasks {
		ti, tp := ti, tp
		s.Go(tp.Name, func() {
			var held []*barTok
			for _, op := range tp.Ops {
				s.Yield(SiteHarnessOp)
				s.BeginOp()
				switch op.K {
				case "acq":
					tk := &barTok{id: len(toks), task: ti}
					toks = append(toks, tk)
					tk.bs = ab.Acquire()
					tk.acqRet = s.Stamp()
					held = append(held, tk)
					env.Logf("%s acq t%d @%d", tp.Name, tk.id, tk.acqRet)
				case "rel":
					if len(held) == 0 {
						break
					}
					i := op.Arg(0) % len(held)
					tk := held[i]
					held = append(held[:i], held[i+1:]...)
					tk.relCall = s.Stamp()
					env.Logf("%s rel t%d @%d", tp.Name, tk.id, tk.relCall)
					ab.Release(tk.bs)
				case "flushnil":
					f := &barFlush{id: len(flushes), task: ti, nilRef: true}
					flushes = append(flushes, f)
					curFlush[s.Cur()] = f
					f.call = s.Stamp()
					env.Logf("%s flush(nil) f%d @%d", tp.Name, f.id, f.call)
					ab.FlushSession(nil)
					f.ret = s.Stamp()
					delete(curFlush, s.Cur())
				case "flush":
					f := &barFlush{id: len(flushes), task: ti}
					f.ref = new(int)
					*f.ref = f.id
					flushes = append(flushes, f)
					curFlush[s.Cur()] = f
					f.call = s.Stamp()
					env.Logf("%s flush f%d @%d", tp.Name, f.id, f.call)
					ab.FlushSession(unsafe.Pointer(f.ref))
					f.ret = s.Stamp()
					delete(curFlush, s.Cur())
				}
				s.EndOp()
			}
			for _, tk := range held {
				s.Yield(SiteHarnessOp)
				tk.relCall = s.Stamp()
				env.Logf("%s rel t%d @%d (final)", tp.Name, tk.id, tk.relCall)
				ab.Release(tk.bs)
			}
		})
	}

	v := s.Run()
	quiescent := env.Finish(v, "C17")

	// C16 oracle over the event log.
	for _, f := range flushes {
		if len(f.destr) > 1 {
			env.Violate("C16", "destructor-twice", "destructor for flush f%d ran %d times (events %v)", f.id, len(f.destr), f.destr)
		}
		if len(f.destr) == 0 {
			continue
		}
		d := f.destr[0]
		if f.call > d {
			env.Violate("C16", "destructor-before-flush", "destructor for f%d at %d before its flush call at %d", f.id, d, f.call)
		}
		for _, tk := range toks {
			if tk.acqRet != 0 && tk.acqRet < f.call {
				if tk.relCall == 0 || tk.relCall > d {
					env.Violate("C16", "destructor-before-earlier-accessor-released",
						"destructor for f%d ran at event %d while token t%d (acquired at %d, before the flush call at %d) was released at %d",
						f.id, d, tk.id, tk.acqRet, f.call, tk.relCall)
				}
			}
		}
	}
	// order: destructors run in the order of the flushes' critical sections
	last := 0
	for _, id := range destrOrder {
		f := flushes[id]
		if f.lockRank < last {
			env.Violate("C16", "destructor-out-of-order", "destructor for f%d (flush rank %d) ran after one of rank %d", id, f.lockRank, last)
		}
		if f.lockRank > last {
			last = f.lockRank
		}
	}
	// a destructor for a flush must not skip an earlier flush that has not been destructed
	seen := map[int]bool{}
	for _, id := range destrOrder {
		f := flushes[id]
		for _, g := range flushes {
			if g.nilRef {
				continue
			}
			if g.lockRank != 0 && g.lockRank < f.lockRank && !seen[g.id] {
				env.Violate("C16", "destructor-skipped-earlier-flush", "destructor for f%d (rank %d) ran before the destructor of earlier flush f%d (rank %d)", id, f.lockRank, g.id, g.lockRank)
			}
		}
		seen[id] = true
	}

	if quiescent {
		// C17: nothing pending at quiescence.
		nd := nilDestr
		nnil := 0
		for _, f := range flushes {
			if len(f.destr) > 0 {
				nd++
			}
			if f.nilRef {
				nnil++
			}
		}
		if nilDestr > nnil {
			env.Violate("C16", "destructor-twice", "%d object-less flushes, the destructor ran %d times without an object", nnil, nilDestr)
		}
		alloc, freed, queued := ab.VerifPending()
		if nd != len(flushes) || queued != 0 || alloc-freed != 1 {
			env.Violate("C17", "pending-session-at-quiescence",
				"%d flushes, %d destructed; barrier: allocated=%d freed=%d queued=%d", len(flushes), nd, alloc, freed, queued)
		}
		env.ProbeN("flushes", len(flushes))
		env.ProbeN("tokens", len(toks))
	}
	s.OnLock = nil
}
