package nsim

import (
	"bytes"
	"encoding/binary"
	"encoding/json"
	"errors"
	"fmt"
	"hash/crc32"
	"io"
	"os"
	"path/filepath"
	"sort"
	"strings"
	"syscall"

	"github.com/couchbase/nitro"
)

// ---- small file-system helpers ---------------------------------------------------

func listFiles(root string) []string {
	var out []string
	filepath.Walk(root, func(p string, info os.FileInfo, err error) error {
		if err == nil && !info.IsDir() {
			rel, _ := filepath.Rel(root, p)
			out = append(out, rel)
		}
		return nil
	})
	sort.Strings(out)
	return out
}

func copyDir(src, dst string) error {
	return filepath.Walk(src, func(p string, info os.FileInfo, err error) error {
		if err != nil {
			return err
		}
		rel, _ := filepath.Rel(src, p)
		t := filepath.Join(dst, rel)
		if info.IsDir() {
			return os.MkdirAll(t, 0755)
		}
		b, err := os.ReadFile(p)
		if err != nil {
			return err
		}
		return os.WriteFile(t, b, 0644)
	})
}

// ---- independent reader of the backup format (C19) -------------------------------

// parseShard decodes a shard file from the specification: items are framed as
// [4-byte big-endian length][bytes] (version 1) or [2-byte length][bytes]
// (version 0); a zero length terminates the stream; the checksum is the XOR
// over all items of crc32(length prefix) XOR crc32(bytes).
func parseShard(b []byte, version int) (items [][]byte, checksum uint32, err error) {
	pre := 4
	if version == 0 {
		pre = 2
	}
	for {
		if len(b) < pre {
			return items, checksum, fmt.Errorf("truncated length prefix (%d bytes left)", len(b))
		}
		var l int
		if version == 0 {
			l = int(binary.BigEndian.Uint16(b[:2]))
		} else {
			l = int(binary.BigEndian.Uint32(b[:4]))
		}
		if l == 0 {
			if len(b) != pre {
				return items, checksum, fmt.Errorf("%d bytes after the terminator", len(b)-pre)
			}
			return items, checksum, nil
		}
		if len(b) < pre+l {
			return items, checksum, fmt.Errorf("truncated item (%d of %d bytes)", len(b)-pre, l)
		}
		checksum ^= crc32.ChecksumIEEE(b[:pre]) ^ crc32.ChecksumIEEE(b[pre:pre+l])
		items = append(items, append([]byte{}, b[pre:pre+l]...))
		b = b[pre+l:]
	}
}

// backupContent reads a complete backup directory with the independent
// parser and returns data items in shard order, delta items, and problems.
func backupContent(dir string, reused ...bool) (data [][]byte, delta [][]byte, problems []string) {
	// a directory that held an earlier backup: files are overwritten from offset 0 and not
	// truncated, so bytes of the earlier, longer file may follow the terminator
	allowTrailing := len(reused) > 0 && reused[0]
	version := 0
	if b, err := os.ReadFile(filepath.Join(dir, "nitro.json")); err == nil {
		var m map[string]int
		if json.Unmarshal(b, &m) == nil {
			version = m["version"]
		}
	}
	read := func(sub string) (out [][]byte) {
		var files []string
		var sums []uint32
		b, err := os.ReadFile(filepath.Join(dir, sub, "files.json"))
		if err != nil {
			if sub == "data" {
				problems = append(problems, sub+"/files.json: "+err.Error())
			}
			return nil
		}
		if err := json.Unmarshal(b, &files); err != nil {
			problems = append(problems, sub+"/files.json: "+err.Error())
			return nil
		}
		if b, err := os.ReadFile(filepath.Join(dir, sub, "checksums.json")); err == nil {
			json.Unmarshal(b, &sums)
		}
		for i, f := range files {
			fb, err := os.ReadFile(filepath.Join(dir, sub, f))
			if err != nil {
				problems = append(problems, sub+"/"+f+": "+err.Error())
				continue
			}
			items, sum, err := parseShard(fb, version)
			if err != nil && allowTrailing && strings.Contains(err.Error(), "after the terminator") {
				err = nil
			}
			if err != nil {
				problems = append(problems, sub+"/"+f+": "+err.Error())
			}
			if i < len(sums) && sums[i] != sum {
				problems = append(problems, fmt.Sprintf("%s/%s: checksums.json says %d, independent computation %d", sub, f, sums[i], sum))
			}
			out = append(out, items...)
		}
		return out
	}
	data = read("data")
	delta = read("delta")
	return
}

// ---- write faults (C12 a) and crash images (C12 b) -------------------------------

type ioFault struct {
	Kind string // enospc | eio | short | openfail | closefail | none
	N    int    // byte budget (enospc) or call index (others)
	K    int    // short: bytes written
}

// diskSim owns the VerifFS / VerifWrapWriter hooks of one StoreToDisk call.
type diskSim struct {
	env      *Env
	root     string
	fault    ioFault
	written  int   // bytes accepted over all backup files
	calls    int   // write calls over all files
	opens    int   // open/writefile boundaries
	closes   int   // close boundaries
	full     bool  // enospc reached
	fired    bool
	capture  bool
	imageDir string
	images   []string // image directories, one per boundary
	labels   []string
	boundary int
}

var errEIO = errors.New("input/output error (injected)")

type faultWriter struct {
	d    *diskSim
	path string
	fd   *os.File
}

func (w *faultWriter) Write(p []byte) (int, error) {
	d := w.d
	d.env.S.Yield(SiteHarnessIO)
	d.boundaryPoint("write", w.path)
	d.calls++
	switch d.fault.Kind {
	case "enospc":
		if d.full {
			return 0, syscall.ENOSPC
		}
		if d.written+len(p) > d.fault.N {
			fit := d.fault.N - d.written
			if fit < 0 {
				fit = 0
			}
			n, _ := w.fd.Write(p[:fit])
			d.written += n
			d.full = true
			d.fire("enospc")
			return n, syscall.ENOSPC
		}
	case "eio":
		if d.calls == d.fault.N {
			d.fire("eio")
			return 0, errEIO
		}
	case "short":
		if d.calls == d.fault.N && len(p) > 0 {
			k := d.fault.K % len(p)
			n, _ := w.fd.Write(p[:k])
			d.written += n
			d.fire("short")
			return n, io.ErrShortWrite
		}
	}
	n, err := w.fd.Write(p)
	d.written += n
	return n, err
}

func (d *diskSim) fire(kind string) {
	if !d.fired {
		d.fired = true
		d.env.FaultFired(kind)
	}
}

// boundaryPoint is called before every file-system mutation.
func (d *diskSim) boundaryPoint(op, path string) {
	d.boundary++
	if !d.capture {
		return
	}
	img := filepath.Join(d.imageDir, fmt.Sprintf("img%04d", len(d.images)))
	os.MkdirAll(img, 0755)
	if _, err := os.Stat(d.root); err == nil {
		copyDir(d.root, img)
	}
	rel, _ := filepath.Rel(d.root, path)
	d.images = append(d.images, img)
	d.labels = append(d.labels, fmt.Sprintf("before %s %s", op, rel))
	if op == "writefile" {
		// ioutil.WriteFile is create+write+close: synthesise "file exists but is empty"
		img2 := filepath.Join(d.imageDir, fmt.Sprintf("img%04d", len(d.images)))
		copyDir(img, img2)
		os.MkdirAll(filepath.Dir(filepath.Join(img2, rel)), 0755)
		os.WriteFile(filepath.Join(img2, rel), nil, 0644)
		d.images = append(d.images, img2)
		d.labels = append(d.labels, fmt.Sprintf("inside writefile %s (created, empty)", rel))
	}
}

func (d *diskSim) fsHook(op, path string) error {
	d.env.S.Yield(SiteHarnessIO)
	d.boundaryPoint(op, path)
	switch op {
	case "open", "writefile":
		d.opens++
		if d.fault.Kind == "openfail" && d.opens == d.fault.N {
			d.fire("openfail")
			return syscall.EMFILE
		}
		if d.fault.Kind == "enospc" && d.full && op == "writefile" {
			return syscall.ENOSPC
		}
	case "close":
		d.closes++
		if d.fault.Kind == "closefail" && d.closes == d.fault.N {
			d.fire("closefail")
			return errEIO
		}
	}
	return nil
}

// install activates the hooks; the returned function removes them.
func (d *diskSim) install() func() {
	nitro.VerifFS = d.fsHook
	nitro.VerifWrapWriter = func(path string, fd *os.File) io.Writer {
		return &faultWriter{d: d, path: path, fd: fd}
	}
	return func() {
		nitro.VerifFS = nil
		nitro.VerifWrapWriter = nil
	}
}

// ---- damage (C11) ------------------------------------------------------------------

type damage struct {
	File string
	Kind string // xor01 xor80 set00 setff inc trunc remove
	Pos  int
}

func (d damage) String() string { return fmt.Sprintf("%s %s@%d", d.File, d.Kind, d.Pos) }

func applyDamage(dir string, d damage) error {
	p := filepath.Join(dir, d.File)
	if d.Kind == "remove" {
		return os.Remove(p)
	}
	b, err := os.ReadFile(p)
	if err != nil {
		return err
	}
	switch d.Kind {
	case "trunc":
		if d.Pos > len(b) {
			return fmt.Errorf("trunc beyond end")
		}
		b = b[:d.Pos]
	default:
		if d.Pos >= len(b) {
			return fmt.Errorf("pos beyond end")
		}
		old := b[d.Pos]
		switch d.Kind {
		case "xor01":
			b[d.Pos] ^= 0x01
		case "xor80":
			b[d.Pos] ^= 0x80
		case "set00":
			b[d.Pos] = 0
		case "setff":
			b[d.Pos] = 0xff
		case "inc":
			b[d.Pos]++
		}
		if b[d.Pos] == old {
			return errNoChange
		}
	}
	return os.WriteFile(p, b, 0644)
}

var errNoChange = errors.New("damage does not change the file")

// allSingleDamages enumerates the complete single-fault space of a backup directory.
func allSingleDamages(dir string) []damage {
	var out []damage
	for _, f := range listFiles(dir) {
		b, err := os.ReadFile(filepath.Join(dir, f))
		if err != nil {
			continue
		}
		out = append(out, damage{f, "remove", 0})
		for l := 0; l < len(b); l++ {
			out = append(out, damage{f, "trunc", l})
		}
		for pos := 0; pos < len(b); pos++ {
			for _, k := range []string{"xor01", "xor80", "set00", "setff", "inc"} {
				out = append(out, damage{f, k, pos})
			}
		}
	}
	return out
}

func isDataShard(f string) bool  { return strings.HasPrefix(f, "data/shard-") }
func isDeltaShard(f string) bool { return strings.HasPrefix(f, "delta/shard-") }

// ---- simulated streams (C19) ---------------------------------------------------------

// chunkReader delivers a byte string in PRNG-chosen chunk sizes with optional
// zero-length reads and an injected error at a byte position.
type chunkReader struct {
	b      []byte
	pos    int
	r      *Rng
	errAt  int // -1 none
	zeroes bool
	fired  bool
}

func (c *chunkReader) Read(p []byte) (int, error) {
	if c.errAt >= 0 && c.pos >= c.errAt {
		c.fired = true
		return 0, errEIO
	}
	if c.pos >= len(c.b) {
		return 0, io.EOF
	}
	if len(p) == 0 {
		return 0, nil
	}
	if c.zeroes && c.r.Bool(0.1) {
		return 0, nil
	}
	n := 1 + c.r.Intn(len(p))
	if c.r.Bool(0.3) {
		n = 1
	}
	if n > len(c.b)-c.pos {
		n = len(c.b) - c.pos
	}
	if c.errAt >= 0 && c.pos+n > c.errAt {
		n = c.errAt - c.pos
		if n == 0 {
			c.fired = true
			return 0, errEIO
		}
	}
	copy(p, c.b[c.pos:c.pos+n])
	c.pos += n
	return n, nil
}

// limitWriter accepts bytes up to a budget and then fails.
type limitWriter struct {
	buf   bytes.Buffer
	errAt int // -1 none
	fired bool
}

func (w *limitWriter) Write(p []byte) (int, error) {
	if w.errAt >= 0 && w.buf.Len()+len(p) > w.errAt {
		fit := w.errAt - w.buf.Len()
		if fit < 0 {
			fit = 0
		}
		w.buf.Write(p[:fit])
		w.fired = true
		return fit, errEIO
	}
	return w.buf.Write(p)
}

func crc32IEEE(b []byte) uint32 { return crc32.ChecksumIEEE(b) }

// parseShardPrefix reads items up to the first terminator the way the file
// reader does (bytes behind the terminator are never looked at).
func parseShardPrefix(b []byte, version int) (items [][]byte, checksum uint32, err error) {
	pre := 4
	if version == 0 {
		pre = 2
	}
	for {
		if len(b) < pre {
			return items, checksum, fmt.Errorf("truncated length prefix")
		}
		var l int
		if version == 0 {
			l = int(binary.BigEndian.Uint16(b[:2]))
		} else {
			l = int(binary.BigEndian.Uint32(b[:4]))
		}
		if l == 0 {
			return items, checksum, nil
		}
		if len(b) < pre+l {
			return items, checksum, fmt.Errorf("truncated item")
		}
		checksum ^= crc32.ChecksumIEEE(b[:pre]) ^ crc32.ChecksumIEEE(b[pre:pre+l])
		items = append(items, b[pre:pre+l])
		b = b[pre+l:]
	}
}
