package nsim

import (
	"bytes"
	"fmt"
	"sort"
	"unsafe"

	"github.com/couchbase/nitro"
	"github.com/couchbase/nitro/skiplist"
)

// Scenario family "nitro*": writers, readers, closers and the internal
// workers of one Nitro instance (C01-C04, C06-C10, C14).

var nitroStallSites = []int{
	nitro.SiteDelSetLink, nitro.SiteDelDeadCAS, nitro.SiteDelAppend, nitro.SiteDelFlush, nitro.SiteOpenInc,
	nitro.SiteCloseDec, nitro.SiteCloseRetire, nitro.SiteCloseMove, nitro.SiteCloseGC, nitro.SiteGCTry, nitro.SiteGCRelease,
	nitro.SiteCollectCheck, nitro.SiteCollectStore, nitro.SiteCollectSend, nitro.SiteGCWUnlink, nitro.SiteGCWFlush,
	nitro.SiteSkipUnwanted, nitro.SiteExistCmp, nitro.SiteIterRefresh, nitro.SiteVisitorPivot, nitro.SiteFreeWNode,
	skiplist.SiteDcasNext, skiplist.SiteGetNext, skiplist.SiteRelTryLock, skiplist.SiteRelInsert, skiplist.SiteFlushAdd, SiteHarnessCmp,
}

func init() {
	for _, v := range []string{"nitro", "nitro_race", "nitro_seq", "nitro_gc", "nitro_iter", "nitro_visit", "nitro_backlog"} {
		v := v
		register(&Scenario{Name: v, Props: []string{"C01", "C02", "C03", "C04", "C06", "C07", "C09", "C10", "C14"},
			Gen: func(seed uint64, tier string) *Plan { return genNitro(v, seed, tier) }, Run: runNitro})
	}
}

// genNitro draws one plan. The variant biases the workload mix:
//
//	nitro        general mix, disjoint key ownership per phase (exact model)
//	nitro_race   writers race on the same keys (porcupine), C03
//	nitro_seq    one client goroutine issues everything (C02)
//	nitro_gc     delete-heavy, many snapshots, racing closers (C06)
//	nitro_iter   cursor programs and refresh (C09)
//	nitro_visit  Visitor with shards/concurrency/callback errors (C10)
func genNitro(variant string, seed uint64, tier string) *Plan {
	r := NewRng(seed, purposePlan)
	p := &Plan{Scenario: variant, Seed: seed, Knobs: map[string]int{}}
	k := p.Knobs
	k["mm"] = r.Intn(2)
	// guard allocator mode: mprotect (every block on its own pages, faults on
	// any access after free) is expensive in this VM; most runs use poison-only
	k["protect"] = 0
	if r.Bool(0.15) {
		k["protect"] = 1
	}
	k["kv"] = r.Intn(2)
	k["cmpimpl"] = r.Intn(2)
	nkeys := r.Range(2, 8)
	nw := r.Range(1, 4)
	nph := r.Range(2, 6)
	nreaders := r.Range(1, 3)
	nclosers := r.Range(1, 2)
	maxOps := 12
	if tier == "thorough" && r.Bool(0.4) {
		// the thorough tier also draws larger plans
		nkeys = r.Range(2, 12)
		nph = r.Range(2, 8)
		maxOps = 16
	}
	delW, putW, getW := 3, 5, 2
	switch variant {
	case "nitro_race":
		k["overlap"] = 1
		nkeys = r.Range(1, 4)
		nw = r.Range(2, 4)
		nph = r.Range(1, 4)
		nreaders = r.Intn(2)
		maxOps = 8
	case "nitro_seq":
		k["sequential"] = 1
		nw = r.Range(1, 3)
		nreaders, nclosers = 0, 0
		maxOps = 16
	case "nitro_gc":
		nph = r.Range(3, 8)
		nw = r.Range(2, 4)
		delW, putW, getW = 5, 4, 1
		nclosers = r.Range(2, 3)
		nreaders = r.Intn(2)
		if r.Bool(0.5) {
			k["overlap"] = 1
			nkeys = r.Range(1, 4)
		}
	case "nitro_iter":
		nkeys = r.Range(3, 10)
		nreaders = r.Range(1, 3)
	case "nitro_visit":
		nkeys = r.Range(2, 12)
		nreaders = r.Range(1, 2)
	}
	if variant == "nitro_backlog" {
		// more closed snapshots waiting behind an old open one than the collection
		// queue holds (256): the final Close hands all their lists over in one pass
		nw = 1
		nkeys = r.Range(3, 8)
		nph = r.Range(259, 300)
		nreaders = 0
		nclosers = 1
		maxOps = 2
		delW, putW, getW = 4, 5, 0
		k["backlog"] = 1
	}
	if k["overlap"] == 0 && r.Bool(0.3) {
		k["chain"] = 1 // the application chains its nodes with nitro.NodeList
	}
	k["nkeys"] = nkeys
	k["nwriters"] = nw
	k["nphases"] = nph
	k["visitor_refresh"] = []int{-1, 0, 1, 2, 3, 7}[r.Intn(6)]
	k["midq"] = r.Intn(2) // quiescent check in the middle of the run
	overlap := k["overlap"] == 1

	genWriterOp := func(ph, wi int) Op {
		key := r.Intn(nkeys)
		if !overlap && nw > 1 {
			// disjoint ownership: key is owned by writer (key+phase) mod nw in this phase
			for try := 0; try < 20 && (key+ph)%nw != wi; try++ {
				key = r.Intn(nkeys)
			}
			if (key+ph)%nw != wi {
				return Op{K: "nop"}
			}
		}
		x := r.Intn(delW + putW + getW)
		switch {
		case x < putW:
			return Op{K: "put", A: []int{key}}
		case x < putW+delW:
			return Op{K: []string{"del", "del", "del2", "delnode", "delnode"}[r.Intn(5)], A: []int{key}}
		default:
			return Op{K: "get", A: []int{key}}
		}
	}
	for ph := 0; ph < nph; ph++ {
		for wi := 0; wi < nw; wi++ {
			tp := TaskPlan{Name: fmt.Sprintf("w%dp%d", wi, ph), Phase: ph}
			n := r.Range(1, maxOps)
			if ph == 0 {
				n = r.Range(maxOps/2, maxOps) // populate
			}
			for j := 0; j < n; j++ {
				op := genWriterOp(ph, wi)
				if ph == 0 && r.Bool(0.6) && op.K != "nop" {
					op.K = "put"
				}
				tp.Ops = append(tp.Ops, op)
			}
			p.Tasks = append(p.Tasks, tp)
		}
	}
	rrs := []int{0, 0, 1, 2, 3, 7}
	genReaderOp := func() Op {
		sidx := r.Intn(8)
		x := r.Intn(10)
		if variant == "nitro_iter" {
			x = 6 + r.Intn(3)
			if r.Bool(0.2) {
				x = r.Intn(10)
			}
		}
		if variant == "nitro_visit" {
			x = 4 + r.Intn(2)
			if r.Bool(0.2) {
				x = r.Intn(10)
			}
		}
		switch {
		case x < 3:
			return Op{K: "scan", A: []int{sidx, rrs[r.Intn(len(rrs))], r.Range(-1, nkeys), r.Intn(2)}}
		case x < 4:
			return Op{K: "seekscan", A: []int{sidx, r.Range(-1, nkeys), rrs[r.Intn(len(rrs))]}}
		case x < 6:
			shards := r.Range(1, 6)
			if r.Bool(0.25) {
				shards = r.Range(7, 40)
			}
			errShard, errN := -1, 0
			if r.Bool(0.3) {
				errShard, errN = r.Intn(shards), r.Intn(3)
			} else if r.Bool(0.15) {
				errShard = -2 // every callback fails (all workers stop early)
			}
			return Op{K: "visit", A: []int{sidx, shards, r.Range(1, 8), errShard, errN}}
		case x < 9:
			// cursor program: pairs (code,arg): 0 seekfirst, 1 seek k, 2 next n, 3 refresh, 4 setrr r
			a := []int{sidx}
			n := r.Range(2, 10)
			for i := 0; i < n; i++ {
				switch c := r.Intn(10); {
				case c < 1:
					a = append(a, 0, 0)
				case c < 4:
					key := r.Range(-1, nkeys)
					if key == nkeys {
						key = 1000
					}
					a = append(a, 1, key)
				case c < 7:
					a = append(a, 2, r.Range(1, 4))
				case c < 9:
					a = append(a, 3, 0)
				default:
					a = append(a, 4, rrs[r.Intn(len(rrs))])
				}
			}
			return Op{K: "cursor", A: a}
		default:
			return Op{K: "count", A: []int{sidx}}
		}
	}
	for i := 0; i < nreaders; i++ {
		tp := TaskPlan{Name: fmt.Sprintf("r%d", i), Phase: -1}
		n := r.Range(1, 6)
		for j := 0; j < n; j++ {
			tp.Ops = append(tp.Ops, genReaderOp())
		}
		p.Tasks = append(p.Tasks, tp)
	}
	for i := 0; i < nclosers; i++ {
		tp := TaskPlan{Name: fmt.Sprintf("c%d", i), Phase: -1}
		n := r.Range(1, nph)
		if variant == "nitro_backlog" {
			n = nph + 5
		}
		for j := 0; j < n; j++ {
			if variant == "nitro_backlog" {
				tp.Ops = append(tp.Ops, Op{K: "closenz", A: []int{r.Intn(8)}})
			} else if r.Bool(0.15) {
				tp.Ops = append(tp.Ops, Op{K: "gc"})
			} else {
				tp.Ops = append(tp.Ops, Op{K: "close", A: []int{r.Intn(8)}})
			}
		}
		p.Tasks = append(p.Tasks, tp)
	}
	// order in which the coordinator closes what is left: 0 oldest first, 1 newest first, 2 middle out
	k["final_order"] = r.Intn(3)
	k["final_closers"] = r.Range(1, 2)
	p.Sched = GenSched(r, seed, 150*p.NumOps()+300, nitroStallSites)
	if variant == "nitro_backlog" {
		k["final_order"] = 1 // newest first: the old snapshot is closed last
		k["final_closers"] = 1
		p.Sched.Strategy = "random"
		p.Sched.P = []float64{0.005, 0.02}[r.Intn(2)]
		p.Sched.Bias = "lazy" // the collection workers fall behind
		p.Sched.StallLen = 0
		p.Sched.Disabled = nil
		p.Sched.MaxSteps = 3000000
	}
	// drawn last so that the rest of the plan is what it was before these existed
	k["late_scan"] = r.Intn(2) // the final closers re-scan every snapshot right before closing it
	if r.Bool(0.7) {
		k["varkeys"] = 1 // keys of 4..7 bytes instead of 4
	}
	if nw >= 2 && variant != "nitro_backlog" && r.Bool(0.4) {
		// after everything else is quiescent: every writer puts and deletes private keys
		// (same-epoch deletes, each flushing a barrier session) and nothing follows but Close
		k["burst"] = r.Range(1, 5)
	}
	return p
}

func runNitro(env *Env) {
	ne := newNitroEnv(env)
	defer ne.release()
	s := env.S
	plan := env.Plan
	nw := plan.Knob("nwriters", 1)
	nph := plan.Knob("nphases", 1)
	sequential := plan.Knob("sequential", 0) == 1

	phaseTasks := map[int][]TaskPlan{}
	var readers, closers []TaskPlan
	for _, tp := range plan.Tasks {
		switch {
		case tp.Phase >= 0:
			phaseTasks[tp.Phase] = append(phaseTasks[tp.Phase], tp)
		case len(tp.Name) > 0 && tp.Name[0] == 'r':
			readers = append(readers, tp)
		default:
			closers = append(closers, tp)
		}
	}
	writerIndex := func(name string) int {
		var wi, ph int
		fmt.Sscanf(name, "w%dp%d", &wi, &ph)
		if wi >= nw {
			wi = wi % nw
		}
		return wi
	}

	creationDone := false
	othersDone := 0
	nOthers := len(readers) + len(closers)

	s.Go("coord", func() {
		for i := 0; i < nw; i++ {
			ne.writers = append(ne.writers, ne.db.NewWriter())
			ne.handles = append(ne.handles, map[int]*skiplist.Node{})
			s.ForceYield(SiteHarnessOp) // the writer's workers register before the next writer exists
		}
		for ph := 0; ph < nph; ph++ {
			tasks := phaseTasks[ph]
			if sequential {
				// one goroutine issues every operation of the phase, round-robin over the writers
				idx := make([]int, len(tasks))
				for more := true; more; {
					more = false
					for ti, tp := range tasks {
						if idx[ti] < len(tp.Ops) {
							s.Yield(SiteHarnessOp)
							ne.execWriterOp(tp.Name, writerIndex(tp.Name), tp.Ops[idx[ti]])
							idx[ti]++
							more = true
						}
					}
				}
			} else {
				done := 0
				for _, tp := range tasks {
					tp := tp
					wi := writerIndex(tp.Name)
					s.Go(tp.Name, func() {
						for _, op := range tp.Ops {
							s.Yield(SiteHarnessOp)
							ne.execWriterOp(tp.Name, wi, op)
						}
						done++
					})
				}
				n := len(tasks)
				s.WaitUntil(func() bool { return done == n })
			}
			// a handle may only be used while its owner can still own the node:
			// handles are forgotten at every phase barrier (ownership of keys changes)
			for wi := range ne.handles {
				ne.handles[wi] = map[int]*skiplist.Node{}
			}
			ne.newSnapshot(fmt.Sprintf("phase %d", ph))
			if sequential && ph > 0 && ph%2 == 1 {
				// the sequential client also closes snapshots as it goes
				ne.closeOwner(ne.snaps[(ph*7)%len(ne.snaps)])
			}
		}
		creationDone = true
		s.WaitUntil(func() bool { return othersDone == nOthers })
		// close what is left, in the drawn order, by one or two goroutines
		var left []*snapRec
		for _, r := range ne.snaps {
			if r.ownerOpen && !r.closing {
				left = append(left, r)
			}
		}
		switch plan.Knob("final_order", 0) {
		case 1:
			sort.Slice(left, func(i, j int) bool { return left[i].idx > left[j].idx })
		case 2:
			mid := len(left) / 2
			var o []*snapRec
			for d := 0; d <= len(left); d++ {
				if mid-d >= 0 && mid-d < len(left) && d != 0 {
					o = append(o, left[mid-d])
				}
				if mid+d < len(left) {
					o = append(o, left[mid+d])
				}
			}
			left = o
		}
		nfc := plan.Knob("final_closers", 1)
		fdone := 0
		for c := 0; c < nfc; c++ {
			c := c
			s.Go(fmt.Sprintf("fc%d", c), func() {
				for i, r := range left {
					if i%nfc == c {
						s.Yield(SiteHarnessOp)
						if plan.Knob("late_scan", 0) == 1 {
							ne.lateScan(fmt.Sprintf("fc%d", c), r)
						}
						ne.closeOwner(r)
					}
				}
				fdone++
			})
		}
		s.WaitUntil(func() bool { return fdone == nfc })
	})

	for _, tp := range readers {
		tp := tp
		s.Go(tp.Name, func() {
			s.WaitUntil(func() bool { return len(ne.snaps) > 0 || creationDone })
			for _, op := range tp.Ops {
				s.Yield(SiteHarnessOp)
				ne.execReaderOp(tp.Name, op)
			}
			othersDone++
		})
	}
	for _, tp := range closers {
		tp := tp
		s.Go(tp.Name, func() {
			s.WaitUntil(func() bool { return len(ne.snaps) > 0 || creationDone })
			for _, op := range tp.Ops {
				s.Yield(SiteHarnessOp)
				switch op.K {
				case "gc":
					s.BeginOp()
					call := s.Stamp()
					ne.db.GC()
					ne.closeIvs = append(ne.closeIvs, [2]int64{call, s.Stamp()})
					s.EndOp()
				case "close":
					if len(ne.snaps) > 1 || creationDone {
						ne.closeOwner(ne.pickOpen(op.Arg(0)))
					}
				case "closenz":
					// close any open snapshot but the oldest one; wait for one to exist
					s.WaitUntil(func() bool { return len(ne.snaps) > 2 || creationDone })
					for _, r := range ne.snaps[1:] {
						if r.ownerOpen && !r.closing && r != ne.lastRec {
							ne.closeOwner(r)
							break
						}
					}
				}
			}
			othersDone++
		})
	}

	// stage A: the whole history, to quiescence
	v := s.Run()
	if v == VHang && ne.inVisit > 0 {
		env.Res.Verdict = v.String()
		env.Violate("C10", "visitor-does-not-terminate", "nothing is runnable while %d Visitor call(s) are in progress: %v", ne.inVisit, s.Describe())
		return
	}
	if !env.Finish(v, "C06") {
		if v == VBudget && ne.inVisit > 0 {
			env.Violate("C10", "visitor-does-not-terminate", "step budget of %d yield points exhausted while %d Visitor call(s) were in progress: %v", s.Steps(), ne.inVisit, s.Describe())
		}
		return
	}
	ne.finalStages()
}

// finalStages: quiescent oracles (C06, C14), forced GC if needed, then
// Nitro.Close and the allocator's live set (C07).
func (ne *nitroEnv) finalStages() {
	env, s := ne.env, ne.s
	// every snapshot is closed now
	for _, r := range ne.snaps {
		if r.refs != 0 {
			env.Violate("C01", "harness-ledger", "snapshot %d still has %d harness handles at the end", r.idx, r.refs)
			return
		}
	}
	ne.checkChain()
	mismatch := ne.checkQuiescent(true, "after all snapshots closed")
	if mismatch != "" {
		if !ne.closesOverlapped() {
			env.Violate("C06", "final-close-did-not-collect", "no Close/GC calls overlapped, yet at quiescence: %s", mismatch)
		} else if ne.lastCloseAlone() {
			env.Violate("C06", "final-close-did-not-collect", "the last Close that retired a snapshot overlapped no other Close or GC call, yet at quiescence: %s", mismatch)
		} else {
			env.Probe("gc_trigger_lost_then_forced")
		}
		done := false
		s.Go("gc", func() {
			ne.db.GC()
			done = true
		})
		if !env.Finish(s.Run(), "C06") {
			return
		}
		if m2 := ne.checkQuiescent(false, "after forced GC"); m2 != "" {
			sig := "garbage-stranded"
			if len(m2) > 0 && containsStr(m2, "GetLastGCSn") {
				sig = "collector-stuck"
			}
			env.Violate("C06", sig, "after every snapshot was closed and GC() was forced at quiescence: %s", m2)
		}
		_ = done
	}
	if snaps := ne.db.GetSnapshots(); len(snaps) != 0 {
		env.Violate("C08", "snapshot-not-retired", "GetSnapshots() lists %d snapshots after every handle was closed", len(snaps))
	}
	if !ne.overlap && len(ne.writers) > 0 {
		// final audit of the set semantics after everything was closed and collected:
		// every key is found iff the reference set holds it, and one more snapshot has
		// the reference content and count
		ok := true
		s.Go("audit", func() {
			w := ne.writers[0]
			for k := 0; k < ne.nkeys; k++ {
				s.Yield(SiteHarnessOp)
				found := w.GetNode(ne.probeItem(k)) != nil
				if want := ne.model.Lookup(k) != nil; found != want {
					env.Violate("C02", "lookup-result", "final audit: GetNode(k%d) found=%v, reference set says %v", k, found, want)
					ok = false
				}
			}
			if rec := ne.newSnapshot("final audit"); rec != nil {
				ne.closeOwner(rec)
			}
		})
		if !env.Finish(s.Run(), "C06") || !ok {
			return
		}
		env.Probe("final_audits")
	}
	// ItemsCount was brought up to date by the last NewSnapshot (nothing was written
	// since): it must be the number of live items linked in the store
	{
		phys, _ := ne.physicalSet()
		live := 0
		for _, v := range phys {
			if v.dead == 0 {
				live++
			}
		}
		if ic := ne.db.ItemsCount(); int(ic) != live {
			env.Violate("C06", "itemscount-drift", "at quiescence after every snapshot was closed: ItemsCount()=%d, %d live items are linked in the store", ic, live)
		}
	}
	if nb := env.Plan.Knob("burst", 0); nb > 0 {
		if !ne.burst(nb) {
			return
		}
	}
	if ne.mm && !ne.allocShared {
		// C17 at nitro level: idle database holds no unlinked-but-unfreed nodes
		phys, _ := ne.physicalSet()
		live := ne.ga.LiveByClass()
		if live["node"] != len(phys) {
			env.Violate("C07", "unlinked-node-not-freed-at-quiescence", "%d node blocks live in the allocator, %d nodes linked in the store", live["node"], len(phys))
		}
		if live["item"] != len(phys) {
			env.Violate("C07", "item-not-freed-at-quiescence", "%d item blocks live in the allocator, %d items linked in the store", live["item"], len(phys))
		}
	}
	// stage B: Close
	ne.closing = true
	s.Go("close", func() {
		ne.db.Close()
	})
	if !env.Finish(s.Run(), "C07") {
		return
	}
	if ne.mm && !ne.allocShared {
		lbc := ne.ga.LiveByClass()
		for _, cls := range []string{"item", "node", "sentinel"} {
			if n := lbc[cls]; n != 0 {
				env.Violate("C07", "leak/"+cls, "%d %s block(s) never returned to the allocator after Close (live by class: %v)", n, cls, ne.ga.LiveByClass())
			}
		}
		ne.ga.CheckPoison()
		a, f, q := ne.db.VerifStore().GetAccesBarrier().VerifPending()
		if a-f != 1 || q != 0 {
			env.Violate("C07", "barrier-sessions-pending-after-close", "access barrier: allocated=%d freed=%d queued=%d", a, f, q)
		}
	}
	env.ProbeN("snapshots", len(ne.snaps))
}

// lateScan: a snapshot that is about to be closed by its owner still presents
// its content, whatever was closed and collected meanwhile.
func (ne *nitroEnv) lateScan(name string, rec *snapRec) {
	if rec == nil || !rec.ownerOpen || rec.closing {
		return
	}
	s := ne.s
	s.BeginOp()
	defer s.EndOp()
	items, _, ok := ne.scanAll(rec.snap, 0, -1, false)
	if !ok {
		ne.env.Violate("C08", "newiterator-nil-on-held-snapshot", "%s: NewIterator returned nil on snapshot %d held by its owner", name, rec.idx)
		return
	}
	if d := diffExact(items, rec.ms.content); d != "" {
		ne.env.Violate("C01", "scan-differs", "%s: scan of snapshot %d right before its owner closes it: %s", name, rec.idx, d)
	}
	if c := rec.snap.Count(); int(c) != len(rec.ms.content) {
		ne.env.Violate("C01", "count-differs", "%s: Count() of snapshot %d = %d right before its owner closes it, expected %d", name, rec.idx, c, len(rec.ms.content))
	}
	ne.env.Logf("%s late scan s%d -> %d items", name, rec.idx, len(items))
	ne.env.Probe("late_scans")
}

// burst: every writer puts and deletes n private keys within the current epoch
// while the others do the same; the store ends up as it was. Each delete flushes
// a barrier session, sessions terminate concurrently, and nothing but Close follows.
func (ne *nitroEnv) burst(n int) bool {
	env, s := ne.env, ne.s
	for wi := range ne.writers {
		wi := wi
		w := ne.writers[wi]
		name := fmt.Sprintf("b%d", wi)
		s.Go(name, func() {
			for j := 0; j < n; j++ {
				k := 500 + wi*20 + j
				s.Yield(SiteHarnessOp)
				s.BeginOp()
				okPut := w.Put2(ne.newItem(k, name)) != nil
				s.EndOp()
				s.Yield(SiteHarnessOp)
				s.BeginOp()
				okDel := w.Delete(ne.probeItem(k))
				s.EndOp()
				env.Logf("%s burst k%d put=%v del=%v", name, k, okPut, okDel)
				if !okPut || !okDel {
					env.Violate("C02", "burst-result", "%s: Put then Delete of private key k%d returned %v, %v", name, k, okPut, okDel)
				}
			}
		})
	}
	env.Probe("bursts")
	return env.Finish(s.Run(), "C07")
}

func containsStr(s, sub string) bool { return indexOf(s, sub) >= 0 }

// ---- reader operations -----------------------------------------------------------

func (ne *nitroEnv) execReaderOp(name string, op Op) {
	s := ne.s
	rec := ne.pickOpen(op.Arg(0))
	if rec == nil {
		return
	}
	if !ne.acquire(rec) {
		return
	}
	defer ne.releaseHandle(rec)
	want := rec.ms.content
	s.BeginOp()
	defer s.EndOp()
	switch op.K {
	case "scan":
		items, _, ok := ne.scanAll(rec.snap, op.Arg(1), op.Arg(2), op.Arg(3) == 1 && ne.mm)
		if !ok {
			ne.env.Violate("C08", "newiterator-nil-on-held-snapshot", "%s: NewIterator returned nil on held snapshot %d", name, rec.idx)
			return
		}
		if d := diffExact(items, want); d != "" {
			ne.env.Violate("C01", "scan-differs", "%s: scan of snapshot %d (refresh rate %d, explicit refresh at %d): %s", name, rec.idx, op.Arg(1), op.Arg(2), d)
		}
		ne.env.Logf("%s scan s%d -> %d items", name, rec.idx, len(items))
	case "count":
		if c := rec.snap.Count(); int(c) != len(want) {
			ne.env.Violate("C01", "count-differs", "%s: Count() of snapshot %d = %d, expected %d", name, rec.idx, c, len(want))
		}
	case "seekscan":
		it := rec.snap.NewIterator()
		if it == nil {
			ne.env.Violate("C08", "newiterator-nil-on-held-snapshot", "%s: NewIterator returned nil on held snapshot %d", name, rec.idx)
			return
		}
		if op.Arg(2) > 0 {
			it.SetRefreshRate(op.Arg(2))
		}
		k := op.Arg(1)
		var got [][]byte
		for it.Seek(ne.probeItem(k)); it.Valid(); it.Next() {
			got = append(got, append([]byte{}, it.Get()...))
			if len(got) > 10000 {
				break
			}
		}
		it.Close()
		lb := sort.Search(len(rec.ms.keys), func(i int) bool { return bytes.Compare(keyBytes(rec.ms.keys[i]), keyBytes(k)) >= 0 })
		if d := diffExact(got, want[lb:]); d != "" {
			ne.env.Violate("C09", "seek-scan-differs", "%s: Seek(k%d) then scan of snapshot %d (refresh rate %d): %s", name, k, rec.idx, op.Arg(2), d)
		}
	case "cursor":
		ne.execCursor(name, rec, op)
	case "visit":
		ne.execVisit(name, rec, op)
	}
}

// execCursor runs a cursor program against the model cursor (C09).
func (ne *nitroEnv) execCursor(name string, rec *snapRec, op Op) {
	it := rec.snap.NewIterator()
	if it == nil {
		ne.env.Violate("C08", "newiterator-nil-on-held-snapshot", "%s: NewIterator returned nil on held snapshot %d", name, rec.idx)
		return
	}
	defer it.Close()
	want := rec.ms.content
	keys := rec.ms.keys
	pos := -1 // model cursor; -1 = unpositioned
	trace := ""
	check := func(step string) bool {
		trace += " " + step
		if pos < 0 {
			return true
		}
		v := it.Valid()
		if v != (pos < len(want)) {
			ne.env.Violate("C09", "valid-differs", "%s: cursor on snapshot %d after%s: Valid()=%v, model index %d of %d", name, rec.idx, trace, v, pos, len(want))
			return false
		}
		if v {
			if got := it.Get(); !bytes.Equal(got, want[pos]) {
				ne.env.Violate("C09", "position-differs", "%s: cursor on snapshot %d after%s: at %q, model says %q (index %d of %s)", name, rec.idx, trace, got, want[pos], pos, fmtItems(want))
				return false
			}
		}
		return true
	}
	for i := 1; i+1 < len(op.A); i += 2 {
		code, arg := op.A[i], op.A[i+1]
		switch code {
		case 0:
			it.SeekFirst()
			pos = 0
			if !check("SeekFirst") {
				return
			}
		case 1:
			it.Seek(ne.probeItem(arg))
			pos = sort.Search(len(keys), func(j int) bool { return bytes.Compare(keyBytes(keys[j]), keyBytes(arg)) >= 0 })
			if !check(fmt.Sprintf("Seek(k%d)", arg)) {
				return
			}
		case 2:
			for n := 0; n < arg; n++ {
				if pos < 0 || pos >= len(want) {
					break
				}
				it.Next()
				pos++
				if !check("Next") {
					return
				}
			}
		case 3:
			if pos >= 0 {
				it.Refresh()
				if !check("Refresh") {
					return
				}
			}
		case 4:
			it.SetRefreshRate(arg)
			trace += fmt.Sprintf(" SetRefreshRate(%d)", arg)
		}
	}
	ne.env.Probe("cursor_programs")
}

type visitRec struct {
	shard int
	b     []byte
}

// execVisit runs Visitor and checks the C10 oracle.
func (ne *nitroEnv) execVisit(name string, rec *snapRec, op Op) {
	s := ne.s
	shards, conc, errShard, errN := op.Arg(1), op.Arg(2), op.Arg(3), op.Arg(4)
	if shards < 1 {
		shards = 1
	}
	if conc < 1 {
		conc = 1
	}
	var got []visitRec
	perShard := map[int]int{}
	injected := false
	errInjected := fmt.Errorf("injected callback error")
	cb := func(itm *nitro.Item, shard int) error {
		s.Yield(SiteHarnessCallback)
		n := perShard[shard]
		perShard[shard] = n + 1
		if (shard == errShard && n == errN) || errShard == -2 {
			injected = true
			ne.env.FaultFired("visitor_callback_error")
			return errInjected
		}
		got = append(got, visitRec{shard, append([]byte{}, itm.Bytes()...)})
		return nil
	}
	ne.inVisit++
	err := ne.db.Visitor(rec.snap, cb, shards, conc)
	ne.inVisit--
	want := rec.ms.content
	if injected {
		if err == nil {
			ne.env.Violate("C10", "callback-error-swallowed", "%s: a callback returned an error (shard %d, call %d) but Visitor returned nil", name, errShard, errN)
		}
		return
	}
	if err != nil {
		ne.env.Violate("C10", "spurious-error", "%s: Visitor returned %v without any callback error", name, err)
		return
	}
	// per shard ascending, shards ordered, concatenation exact
	byShard := map[int][][]byte{}
	maxShard := -1
	for _, g := range got {
		byShard[g.shard] = append(byShard[g.shard], g.b)
		if g.shard > maxShard {
			maxShard = g.shard
		}
	}
	var concat [][]byte
	for sh := 0; sh <= maxShard; sh++ {
		items := byShard[sh]
		for i := 1; i < len(items); i++ {
			if bytes.Compare(ne.itemKey(items[i-1]), ne.itemKey(items[i])) >= 0 {
				ne.env.Violate("C10", "shard-not-ascending", "%s: shard %d of snapshot %d delivered %s", name, sh, rec.idx, fmtItems(items))
			}
		}
		concat = append(concat, items...)
	}
	if d := diffExact(concat, want); d != "" {
		sig := "delivery-differs"
		if len(concat) > len(want) {
			sig = "item-delivered-twice-or-extra"
		} else if len(concat) < len(want) {
			sig = "item-not-delivered"
		}
		ne.env.Violate("C10", sig, "%s: Visitor(snapshot %d, shards=%d, concurrency=%d) concatenated by shard: %s", name, rec.idx, shards, conc, d)
	}
	if len(byShard) > 1 {
		ne.env.Probe("visit_multi_shard")
	}
	ne.env.Probe("visits")
}

var _ = unsafe.Pointer(nil)
