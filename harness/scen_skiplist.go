package nsim

import (
	"fmt"
	"runtime"
	"sort"
	"time"
	"unsafe"

	"github.com/anishathalye/porcupine"
	"github.com/couchbase/nitro/skiplist"
)

// Scenario "sl": the lock-free skiplist used directly (C13 linearizability,
// C14 structure and statistics at quiescence).

func init() {
	register(&Scenario{Name: "sl", Props: []string{"C13", "C14", "C04"}, Gen: genSL, Run: runSL})
}

var slStallSites = []int{skiplist.SiteDcasNext, skiplist.SiteGetNext, skiplist.SiteNewLevelCAS, SiteHarnessCmp,
	skiplist.SiteHelpDeleteStats, skiplist.SiteInsertStats, skiplist.SiteSoftDeleteStats}

func genSL(seed uint64, tier string) *Plan {
	r := NewRng(seed, purposePlan)
	p := &Plan{Scenario: "sl", Seed: seed, Knobs: map[string]int{}}
	p.Knobs["mm"] = r.Intn(2)
	p.Knobs["protect"] = 0
	if r.Bool(0.25) {
		p.Knobs["protect"] = 1
	}
	nkeys := r.Range(1, 4)
	p.Knobs["nkeys"] = nkeys
	p.Knobs["ladder"] = []int{0, 0, 3, 6, 12, 32}[r.Intn(6)] // pre-built towers up to this height
	p.Knobs["prefill"] = r.Intn(1 << uint(nkeys))          // bitmask of contended keys present at start
	p.Knobs["localstats"] = r.Intn(2)
	ntasks := r.Range(2, 4)
	levelMode := r.Intn(3) // 0 random 0..6, 1 all flat, 2 all tall
	for i := 0; i < ntasks; i++ {
		tp := TaskPlan{Name: fmt.Sprintf("c%d", i)}
		n := r.Range(2, 10)
		for j := 0; j < n; j++ {
			k := 10 * (1 + r.Intn(nkeys))
			lvl := 0
			switch levelMode {
			case 0:
				lvl = r.Intn(7)
			case 2:
				lvl = r.Range(3, 6)
			}
			switch x := r.Intn(10); {
			case x < 4:
				tp.Ops = append(tp.Ops, Op{K: "ins", A: []int{k, lvl}})
			case x < 6:
				tp.Ops = append(tp.Ops, Op{K: "del", A: []int{k}})
			case x < 8:
				tp.Ops = append(tp.Ops, Op{K: "delnode", A: []int{k}})
			default:
				tp.Ops = append(tp.Ops, Op{K: "lookup", A: []int{k}})
			}
		}
		p.Tasks = append(p.Tasks, tp)
	}
	p.Sched = GenSched(r, seed, 60*p.NumOps()+100, slStallSites)
	return p
}

// ---- int items -----------------------------------------------------------

type intItem struct {
	key int
}

func intOf(p unsafe.Pointer) int { return (*intItem)(p).key }

func cmpIntRaw(a, b unsafe.Pointer) int { return intOf(a) - intOf(b) }

// levelRand returns a randFn that makes NewLevel choose exactly lvl
// (subject to the skiplist's own one-level-at-a-time growth rule).
func levelRand(lvl int) func() float32 {
	n := 0
	return func() float32 {
		if n < lvl {
			n++
			return 0
		}
		return 1
	}
}

// ---- porcupine model: per-key register holding the id of the present node

type slIn struct {
	Op   string // ins del delnode lookup
	Key  int
	Node int // delnode: handle
}

type slOut struct {
	Ok   bool
	Node int // ins ok: id of the new node
}

var slModel = porcupine.Model{
	Partition: func(history []porcupine.Operation) [][]porcupine.Operation {
		m := map[int][]porcupine.Operation{}
		var keys []int
		for _, op := range history {
			k := op.Input.(slIn).Key
			if _, ok := m[k]; !ok {
				keys = append(keys, k)
			}
			m[k] = append(m[k], op)
		}
		sort.Ints(keys)
		var out [][]porcupine.Operation
		for _, k := range keys {
			out = append(out, m[k])
		}
		return out
	},
	Init: func() interface{} { return 0 },
	Step: func(state, input, output interface{}) (bool, interface{}) {
		st := state.(int)
		in := input.(slIn)
		out := output.(slOut)
		switch in.Op {
		case "init":
			return true, out.Node
		case "ins":
			if out.Ok {
				return st == 0, out.Node
			}
			return st != 0, st
		case "del":
			if out.Ok {
				return st != 0, 0
			}
			return st == 0, st
		case "delnode":
			if out.Ok {
				return st == in.Node && st != 0, 0
			}
			return st != in.Node, st
		case "lookup":
			return out.Ok == (st != 0), st
		case "final":
			return out.Ok == (st != 0), st
		}
		return false, st
	},
	Equal: func(a, b interface{}) bool { return a.(int) == b.(int) },
	DescribeOperation: func(input, output interface{}) string {
		return fmt.Sprintf("%+v -> %+v", input, output)
	},
}

func checkLinearizable(env *Env, prop string, model porcupine.Model, ops []porcupine.Operation) {
	res, info := porcupine.CheckOperationsVerbose(model, ops, 10*time.Second)
	_ = info
	switch res {
	case porcupine.Illegal:
		// find the offending partition for the report
		parts := model.Partition(ops)
		for _, part := range parts {
			if porcupine.CheckOperations(model, part) == false {
				desc := ""
				sort.Slice(part, func(i, j int) bool { return part[i].Call < part[j].Call })
				for _, o := range part {
					desc += fmt.Sprintf("[c%d %d..%d %s] ", o.ClientId, o.Call, o.Return, model.DescribeOperation(o.Input, o.Output))
				}
				env.Violate(prop, "not-linearizable", "no linearization for partition: %s", desc)
				return
			}
		}
		env.Violate(prop, "not-linearizable", "history of %d operations has no linearization", len(ops))
	case porcupine.Unknown:
		env.Res.Inconclusive = "porcupine"
	}
}

func runSL(env *Env) {
	s := env.S
	plan := env.Plan
	mm := plan.Knob("mm", 0) == 1
	var ga *GuardAlloc
	var items []*intItem // keep items reachable for the Go collector
	// items are referenced from node memory the collector cannot see (user-managed
	// mode): they must stay alive until the last oracle has read the structure
	defer func() { runtime.KeepAlive(&items) }()
	newItem := func(k int) unsafe.Pointer {
		it := &intItem{key: k}
		items = append(items, it)
		return unsafe.Pointer(it)
	}
	cmp := func(a, b unsafe.Pointer) int {
		s.Yield(SiteHarnessCmp)
		return intOf(a) - intOf(b)
	}
	cfg := skiplist.DefaultConfig()
	cfg.ItemSize = func(unsafe.Pointer) int { return 8 }
	var sl *skiplist.Skiplist
	var freeSts skiplist.Stats
	if mm {
		ga = NewGuardAlloc(env, plan.Knob("protect", 0) == 1)
		defer ga.Release()
		env.Alloc = ga
		cfg.UseMemoryMgmt = true
		cfg.Malloc = ga.Malloc
		cfg.Free = ga.Free
		cfg.BarrierDestructor = func(ref unsafe.Pointer) {
			s.Yield(SiteHarnessCallback)
			n := (*skiplist.Node)(ref)
			sl.FreeNode(n, &sl.Stats)
		}
		ga.OnFree = func(p unsafe.Pointer, b *block) {
			if b.class != "node" {
				return
			}
			// C04 (d): a node must not be released while it is still linked at any level
			head, tail := sl.HeadNode(), sl.TailNode()
			for l := 0; l <= skiplist.MaxLevel; l++ {
				for n, _ := head.VerifNext(l); n != nil && n != tail; {
					if unsafe.Pointer(n) == p {
						env.Violate("C04", "freed-while-linked", "node %p (height %d) released while still linked at level %d", p, n.Level(), l)
						return
					}
					if !ga.IsLive(unsafe.Pointer(n)) {
						return
					}
					n, _ = n.VerifNext(l)
				}
			}
		}
	}
	_ = freeSts
	sl = skiplist.NewWithConfig(cfg)
	barrier := sl.GetAccesBarrier()

	nodeID := map[*skiplist.Node]int{}
	idOf := func(n *skiplist.Node) int {
		if id, ok := nodeID[n]; ok {
			return id
		}
		id := len(nodeID) + 1
		nodeID[n] = id
		return id
	}
	table := map[int]*skiplist.Node{} // key -> latest inserted node (shared handle table)
	var hist []porcupine.Operation

	// sequential set-up by the root: stable neighbours, ladder of towers, prefill
	setupBuf := sl.MakeBuf()
	neighbours := []int{5, 25, 45}
	for _, k := range neighbours {
		sl.Insert2(newItem(k), cmpIntRaw, nil, setupBuf, levelRand(1), &sl.Stats)
	}
	for h := 1; h <= plan.Knob("ladder", 0); h++ {
		sl.Insert2(newItem(1000+h), cmpIntRaw, nil, setupBuf, levelRand(h), &sl.Stats)
	}
	nkeys := plan.Knob("nkeys", 1)
	for i := 0; i < nkeys; i++ {
		if plan.Knob("prefill", 0)&(1<<uint(i)) != 0 {
			k := 10 * (i + 1)
			n, ok := sl.Insert2(newItem(k), cmpIntRaw, nil, setupBuf, levelRand(i%3), &sl.Stats)
			if ok {
				table[k] = n
				hist = append(hist, porcupine.Operation{ClientId: 9, Input: slIn{Op: "init", Key: k}, Call: 0, Output: slOut{Ok: true, Node: idOf(n)}, Return: 0})
			}
		}
	}

	localStats := plan.Knob("localstats", 0) == 1
	insertDied := false // an Insert panicked: its history entry is missing, linearizability is not checked
	var taskStats []*skiplist.Stats
	for ti, tp := range plan.Tasks {
		ti, tp := ti, tp
		sts := &sl.Stats
		if localStats {
			sts = &skiplist.Stats{}
			sts.IsLocal(true)
			taskStats = append(taskStats, sts)
		}
		s.Go(tp.Name, func() {
			buf := sl.MakeBuf()
			for _, op := range tp.Ops {
				s.Yield(SiteHarnessOp)
				k := op.Arg(0)
				in := slIn{Op: op.K, Key: k}
				var out slOut
				s.BeginOp()
				call := s.Stamp()
				switch op.K {
				case "ins":
					var n *skiplist.Node
					var ok bool
					died := ""
					func() {
						if !mm {
							// with Go-managed memory a panic inside Insert is not a memory fault of the
							// reclamation scheme: the calling goroutine dies, everybody else goes on, and
							// what the dead insert left behind is judged at quiescence (C14)
							defer func() {
								if r := recover(); r != nil {
									died = fmt.Sprint(r)
								}
							}()
						}
						n, ok = sl.Insert2(newItem(k), cmp, nil, buf, levelRand(op.Arg(1)), sts)
					}()
					if died != "" {
						s.EndOp()
						env.Violate("C13", "panic:"+panicClass(": "+died), "%s: Insert(%d) panicked: %s", tp.Name, k, died)
						env.Logf("%s ins(%d) panicked", tp.Name, k)
						insertDied = true
						return
					}
					out.Ok = ok
					if ok {
						out.Node = idOf(n)
						table[k] = n
					}
				case "lookup":
					tok := barrier.Acquire()
					_, _, found := sl.Lookup(newItem(k), cmp, buf, sts)
					barrier.Release(tok)
					out.Ok = found
				case "del":
					if !mm && op.Arg(0)%20 == 0 {
						out.Ok = sl.Delete(newItem(k), cmp, buf, sts)
					} else if !mm {
						_, curr, found := sl.Lookup(newItem(k), cmp, buf, sts)
						if found {
							out.Ok = sl.DeleteNode(curr, cmp, buf, sts)
							if out.Ok && linkedAtLevel0(sl, curr, nil) {
								env.Violate("C15", "deleted-node-still-linked-after-delete-returned", "DeleteNode(%d) returned true but its node is still linked at level 0: a scan starting now returns the deleted item", k)
							}
						}
					} else {
						tok := barrier.Acquire()
						_, curr, found := sl.Lookup(newItem(k), cmp, buf, sts)
						ok := false
						if found {
							ok = sl.DeleteNode2(curr, cmp, buf, sts)
						}
						if ok && linkedAtLevel0(sl, curr, ga.IsLive) {
							env.Violate("C15", "deleted-node-still-linked-after-delete-returned", "DeleteNode2(%d) returned true but its node is still linked at level 0: a scan starting now returns the deleted item", k)
						}
						barrier.Release(tok)
						if ok {
							barrier.FlushSession(unsafe.Pointer(curr))
						}
						out.Ok = ok
					}
				case "delnode":
					if !mm {
						h := table[k]
						if h == nil {
							in.Op = "lookup"
							tok := barrier.Acquire()
							_, _, found := sl.Lookup(newItem(k), cmp, buf, sts)
							barrier.Release(tok)
							out.Ok = found
							break
						}
						in.Node = idOf(h)
						out.Ok = sl.DeleteNode(h, cmp, buf, sts)
					} else {
						// documented use with user-managed memory: the handle is looked
						// up and deleted under one barrier token
						tok := barrier.Acquire()
						_, curr, found := sl.Lookup(newItem(k), cmp, buf, sts)
						if !found {
							barrier.Release(tok)
							in.Op = "lookup"
							out.Ok = false
							break
						}
						in.Node = idOf(curr)
						s.Yield(SiteHarnessOp)
						ok := sl.DeleteNode2(curr, cmp, buf, sts)
						barrier.Release(tok)
						if ok {
							barrier.FlushSession(unsafe.Pointer(curr))
						}
						out.Ok = ok
					}
				}
				ret := s.Stamp()
				s.EndOp()
				env.Logf("%s %s(%d,%d) -> %v,%d [%d..%d]", tp.Name, in.Op, in.Key, in.Node, out.Ok, out.Node, call, ret)
				hist = append(hist, porcupine.Operation{ClientId: ti, Input: in, Call: call, Output: out, Return: ret})
			}
			if localStats {
				s.Yield(SiteHarnessOp)
				sl.Stats.Merge(sts)
			}
		})
	}

	v := s.Run()
	if !env.Finish(v, "") {
		if env.Verbose {
			var isLive func(unsafe.Pointer) bool
			if mm {
				isLive = ga.IsLive
			}
			for _, l := range dumpSkiplist(sl, func(p unsafe.Pointer) string { return fmt.Sprint(intOf(p)) }, isLive) {
				env.Res.Log = append(env.Res.Log, "  "+l)
			}
		}
		return
	}

	// final scan by an iterator (quiescent): final reads + exact sorted set
	it := sl.NewIterator(cmpIntRaw, setupBuf)
	var scan []int
	for it.SeekFirst(); it.Valid(); it.Next() {
		scan = append(scan, intOf(it.Get()))
	}
	it.Close()
	present := map[int]bool{}
	for i, k := range scan {
		present[k] = true
		if i > 0 && scan[i-1] >= k {
			env.Violate("C13", "final-scan-not-sorted", "iterator after quiescence yields %v", scan)
		}
	}
	fin := s.Stamp()
	for i := 0; i < nkeys; i++ {
		k := 10 * (i + 1)
		hist = append(hist, porcupine.Operation{ClientId: 8, Input: slIn{Op: "final", Key: k}, Call: fin, Output: slOut{Ok: present[k]}, Return: fin + 1})
	}
	for _, k := range neighbours {
		if !present[k] {
			env.Violate("C13", "stable-item-lost", "stable item %d missing from final scan %v", k, scan)
		}
	}
	if !insertDied {
		checkLinearizable(env, "C13", slModel, hist)
	}

	// C14: structure and statistics
	var isLive func(unsafe.Pointer) bool
	if mm {
		isLive = ga.IsLive
	}
	w := walkSkiplist(sl, cmpIntRaw, isLive)
	for _, p := range w.Problems {
		env.Violate("C14", "walk:"+problemClass(p), "%s", p)
	}
	for _, p := range w.checkStats(sl) {
		env.Violate("C14", problemClass(p), "%s", p)
	}
	st := sl.GetStats()
	if mm {
		lc := ga.LiveByClass()
		liveNodes := lc["node"] + lc["sentinel"] - 2
		if int64(liveNodes) != st.NodeAllocs-st.NodeFrees {
			env.Violate("C14", "stats-allocs-frees", "node_allocs-node_frees=%d but the allocator holds %d live node blocks (level-0 nodes %d)", st.NodeAllocs-st.NodeFrees, liveNodes, len(w.Level0))
		}
		if liveNodes != len(w.Level0) {
			env.Violate("C17", "unlinked-node-not-freed-at-quiescence", "%d live node blocks, %d nodes linked", liveNodes, len(w.Level0))
		}
		ga.CheckPoison()
	} else if int(st.NodeAllocs-st.NodeFrees) < len(w.Level0) {
		env.Violate("C14", "stats-allocs-frees", "node_allocs-node_frees=%d < %d nodes linked", st.NodeAllocs-st.NodeFrees, len(w.Level0))
	}
	if w.Marked0 > 0 {
		env.Probe("marked_linked_at_quiescence")
	}
	env.ProbeN("ops", len(hist))
	st2 := sl.GetStats()
	env.ProbeN("insert_conflicts", int(st2.InsertConflicts))
	env.ProbeN("read_conflicts", int(st2.ReadConflicts))
}
