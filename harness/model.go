package nsim

import (
	"bytes"
	"fmt"
	"sort"
)

// MVModel is the reference multi-version set (DESIGN 5.1). Keys are small
// integers; the bytes of an item are produced by the scenario's encoder.
type mvVersion struct {
	key  int
	val  []byte // full item bytes
	born uint32
	dead uint32 // 0 = alive
}

type mvSnap struct {
	sn      uint32
	content [][]byte // frozen, sorted by key
	keys    []int
	closed  bool // every handle closed (retired)
}

type MVModel struct {
	live     map[int]*mvVersion
	versions []*mvVersion
	epoch    uint32 // nitro's currSn
	snaps    []*mvSnap
}

func NewMVModel() *MVModel {
	return &MVModel{live: map[int]*mvVersion{}, epoch: 1}
}

func (m *MVModel) Put(key int, val []byte) bool {
	if _, ok := m.live[key]; ok {
		return false
	}
	v := &mvVersion{key: key, val: append([]byte{}, val...), born: m.epoch}
	m.live[key] = v
	m.versions = append(m.versions, v)
	return true
}

func (m *MVModel) Delete(key int) bool {
	v, ok := m.live[key]
	if !ok {
		return false
	}
	v.dead = m.epoch
	delete(m.live, key)
	return true
}

func (m *MVModel) Lookup(key int) []byte {
	if v, ok := m.live[key]; ok {
		return v.val
	}
	return nil
}

func (m *MVModel) sortedLive() ([]int, [][]byte) {
	keys := make([]int, 0, len(m.live))
	for k := range m.live {
		keys = append(keys, k)
	}
	sort.Ints(keys)
	vals := make([][]byte, len(keys))
	for i, k := range keys {
		vals[i] = m.live[k].val
	}
	return keys, vals
}

// NewSnapshot freezes the live set and advances the epoch.
func (m *MVModel) NewSnapshot() *mvSnap {
	keys, vals := m.sortedLive()
	s := &mvSnap{sn: m.epoch, content: vals, keys: keys}
	m.snaps = append(m.snaps, s)
	m.epoch++
	return s
}

// ApplyPhaseOutcome updates one key after a phase of racing writers whose
// history was validated by porcupine: okDeletes successful deletes happened in
// the current epoch and the key finally holds finalVal (nil = absent).
// Versions born and deleted inside one epoch are physically removed at once
// and never enter the version log.
func (m *MVModel) ApplyPhaseOutcome(key int, okDeletes int, finalVal []byte) {
	if v0, ok := m.live[key]; ok && v0.born < m.epoch {
		if okDeletes == 0 {
			return
		}
		v0.dead = m.epoch
		delete(m.live, key)
	} else if ok {
		// born in this epoch (only possible when called twice); drop it
		delete(m.live, key)
		for i, v := range m.versions {
			if v == v0 {
				m.versions = append(m.versions[:i], m.versions[i+1:]...)
				break
			}
		}
	}
	if finalVal != nil {
		v := &mvVersion{key: key, val: append([]byte{}, finalVal...), born: m.epoch}
		m.live[key] = v
		m.versions = append(m.versions, v)
	}
}

// lastCollectable returns the highest n such that snapshots 1..n exist and
// are all closed.
func (m *MVModel) lastCollectable() uint32 {
	var n uint32
	for _, s := range m.snaps {
		if !s.closed {
			break
		}
		n = s.sn
	}
	return n
}

// ExpectedPhysical returns the versions that must be linked at quiescence
// after a completed collection pass under the in-order pinning rule: live
// versions, plus dead versions whose epoch of death d has not been collected
// (some snapshot with sn <= d is still open, or snapshot d does not exist yet).
func (m *MVModel) ExpectedPhysical() []*mvVersion {
	lc := m.lastCollectable()
	var out []*mvVersion
	for _, v := range m.versions {
		if v.dead == 0 || v.dead > lc {
			out = append(out, v)
		}
	}
	sort.SliceStable(out, func(i, j int) bool {
		if out[i].key != out[j].key {
			return out[i].key < out[j].key
		}
		return out[i].born < out[j].born
	})
	return out
}

// MustBePresent returns the versions visible to some open snapshot (strict
// safety part of C06) or alive.
func (m *MVModel) MustBePresent() []*mvVersion {
	var out []*mvVersion
	for _, v := range m.versions {
		if v.dead == 0 {
			out = append(out, v)
			continue
		}
		for _, s := range m.snaps {
			if !s.closed && v.born <= s.sn && s.sn < v.dead {
				out = append(out, v)
				break
			}
		}
	}
	return out
}

func fmtItems(items [][]byte) string {
	parts := make([]string, len(items))
	for i, b := range items {
		parts[i] = fmt.Sprintf("%q", b)
	}
	return "[" + joinMax(parts, 24) + "]"
}

func joinMax(parts []string, max int) string {
	if len(parts) > max {
		rest := len(parts) - max
		parts = append(append([]string{}, parts[:max]...), fmt.Sprintf("...+%d", rest))
	}
	out := ""
	for i, p := range parts {
		if i > 0 {
			out += " "
		}
		out += p
	}
	return out
}

// diffExact compares a scan with the expected list (DESIGN 5.5).
func diffExact(got, want [][]byte) string {
	if len(got) != len(want) {
		return fmt.Sprintf("length %d, expected %d: got %s expected %s", len(got), len(want), fmtItems(got), fmtItems(want))
	}
	for i := range got {
		if !bytes.Equal(got[i], want[i]) {
			return fmt.Sprintf("item %d is %q, expected %q: got %s expected %s", i, got[i], want[i], fmtItems(got), fmtItems(want))
		}
	}
	return ""
}
