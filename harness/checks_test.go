package nsim

func init() {
	barrierReal := []string{"skiplist.AccessBarrier (Acquire, Release, FlushSession, doCleanup) and its free queue skiplist"}
	barrierStub := []string{"goroutine scheduling (nsim scheduler decides who runs at every yield site)", "AccessBarrier mutex hand-off order (modelled lock, granted by the scheduler)", "node allocator for the host skiplist's sentinels (plain Go-heap allocator)"}
	defCheck(&checkDef{Prop: "C16", Level: "exploration",
		Scens:   []scenBudget{{"barrier", 60000, 3000000}},
		Rule:    "one evaluation = one generated plan (2-5 tasks x 1-12 Acquire/Release/FlushSession operations, nested holders, flushes by token holders, a quarter of the flushes without an object) executed under one drawn schedule (random(p) / PCT(d<=4) / stall at a barrier site, worker bias, site-class subset); non-trivial = at least one preemption happened between the call and the return of a barrier operation; distinct = distinct 64-bit hash of the scheduling trace plus observed event log",
		Real:    barrierReal, Stubbed: barrierStub,
		Assume:  []string{"sequential consistency at the granularity of the yield sites (every atomic step of the barrier)", "plans bounded to <=5 tasks x <=12 operations"},
	})
	defCheck(&checkDef{Prop: "C17", Level: "exploration",
		Scens:   []scenBudget{{"barrier", 60000, 3000000}},
		Rule:    "same runs as C16; oracle evaluated when the scheduler reports quiescence (every task finished, nothing runnable): destructors run == FlushSession calls, free queue empty, allocated-freed == 1; non-trivial = at least one preemption inside a barrier operation; distinct = distinct trace hash",
		Real:    barrierReal, Stubbed: barrierStub,
		Assume:  []string{"quiescence is the scheduler verdict (no task runnable, all finished), not a sleep"},
	})

	slReal := []string{"skiplist package used directly: Insert2/Insert4, Delete, DeleteNode/DeleteNode2, Lookup, findPath, helpDelete, softDelete, NewLevel, iterators, statistics, access barrier (user-managed mode)"}
	slStub := []string{"goroutine scheduling (nsim scheduler)", "node allocator in user-managed mode: guard allocator (own page per block, poison + mprotect on free, no address reuse)", "level choice: randFn supplied by the plan", "key comparator: harness comparator over int items (a yield point)"}
	defCheck(&checkDef{Prop: "C13", Level: "exploration",
		Scens:  []scenBudget{{"sl", 40000, 1500000}},
		Rule:   "one evaluation = one plan (2-4 client tasks x 2-10 Insert2/Delete/DeleteNode/Lookup over 1-4 contended keys plus stable neighbours, tower heights 0-6 and a pre-built ladder up to MaxLevel, Go-managed or guard-allocated nodes) under one drawn schedule; oracle = porcupine per-key register model incl. node identity for DeleteNode + final iterator scan as final reads; non-trivial = a preemption inside an operation; distinct = distinct trace hash",
		Real:   slReal, Stubbed: slStub,
		Assume: []string{"sequential consistency at yield-site granularity (every getNext load and dcasNext CAS)", "<=4 tasks x <=10 ops, <=4 contended keys"},
	})
	defCheck(&checkDef{Prop: "C14", Level: "exploration",
		Scens:  []scenBudget{{"sl", 40000, 1500000}},
		Rule:   "same runs as C13 (skiplist level); at scheduler-detected quiescence a non-yielding walk of all 33 levels checks chain/acyclic/strictly-increasing/sub-sequence/tower invariants and reconciles GetStats()/MemoryInUse()/allocs-frees with the walk and the allocator (an Insert that panics under Go-managed memory ends its client only; what it left behind is judged by the same walk); non-trivial = a preemption inside an operation; distinct = distinct trace hash",
		Real:   slReal, Stubbed: slStub,
		Assume: []string{"quiescence is the scheduler verdict"},
	})
	defCheck(&checkDef{Prop: "C04", Level: "exploration",
		Scens:  []scenBudget{{"sl", 40000, 1500000}},
		Rule:   "user-managed memory with the guard allocator; every free checks the block is live (double/unknown free) and, for node blocks, that the node is not reachable on any level; any access to a freed block faults (mprotect) or trips the poison check; non-trivial = a preemption inside an operation; distinct = distinct trace hash",
		Real:   slReal, Stubbed: slStub,
		Assume: []string{"the guard allocator never reuses an address within a run"},
	})

	nReal := commonReal
	nStub := commonStubbed
	nAssume := []string{"sequential consistency at yield-site granularity (every atomic step of skiplist and barrier, named windows in nitro, comparator/allocator/callback entry)", "usage contract of the API comments: one goroutine per Writer, NewSnapshot only while no Put/Delete is in flight, every snapshot and iterator closed before Nitro.Close", "plans bounded: <=4 writers, <=8 phases, <=16 operations per writer and phase, <=12 keys"}
	nitroRule := func(what string) string {
		return "one evaluation = one generated plan (" + what + ") executed on a real Nitro instance under one drawn schedule (random(p) / PCT(d<=4) / stall at a named site; worker bias eager/lazy/fair; site-class subset; both memory modes; default and key-only comparator); non-trivial = at least one preemption between call and return of an operation; distinct = distinct hash of scheduling trace + observed history"
	}
	defCheck(&checkDef{Prop: "C01", Level: "exploration",
		Scens:     []scenBudget{{"nitro", 12000, 400000}, {"nitro_gc", 6000, 200000}, {"nitro_iter", 6000, 200000}},
		Rule:      nitroRule("2-8 phases of 1-4 writers, snapshot at every phase barrier, readers scanning any open snapshot with hand-held iterators (refresh rate, explicit Refresh), Seek-then-scan, Visitor, Count while writers, closers (any close order) and GC/free workers run, application NodeList chaining in 30% of the runs, owners re-scan each snapshot right before closing it; oracle: every completed scan == frozen model content"),
		Real:      nReal, Stubbed: nStub, Assume: nAssume,
		WarnProbe: []string{"snapshots", "late_scans"},
	})
	defCheck(&checkDef{Prop: "C02", Level: "exploration",
		Scens:  []scenBudget{{"nitro_seq", 20000, 600000}, {"nitro", 6000, 200000}},
		Rule:   nitroRule("one client goroutine issuing Put/Put2/Delete/Delete2/DeleteNode/GetNode/NewSnapshot/Close through 1-3 writers (nitro_seq), and disjoint-ownership concurrent writers (nitro); collection and free workers run concurrently; oracle: every return value, ItemsCount, Snapshot.Count and snapshot content equal the reference set, incl. a final audit (every key looked up, one more snapshot) after everything was closed and collected; keys of 4-7 bytes"),
		Real:   nReal, Stubbed: nStub, Assume: nAssume,
	})
	defCheck(&checkDef{Prop: "C03", Level: "exploration",
		Scens:  []scenBudget{{"nitro_race", 20000, 800000}},
		Rule:   nitroRule("2-4 writers racing Put2/Delete/Delete2/DeleteNode/GetNode on 1-4 shared keys over 1-4 phases; oracle: porcupine per-key register with node identity over each phase history incl. the next snapshot's content as final reads, plus state-change arithmetic"),
		Real:   nReal, Stubbed: nStub, Assume: append([]string{"porcupine histories bounded to <=4 clients x <=8 ops per phase; Unknown (timeout) counted as inconclusive"}, nAssume...),
	})
	c04 := checkDefs["C04"]
	c04.Scens = []scenBudget{{"sl", 24000, 1000000}, {"nitro_race", 8000, 400000}, {"nitro", 5000, 200000}}
	c04.Real = append(c04.Real, nReal...)
	defCheck(&checkDef{Prop: "C06", Level: "exploration",
		Scens:  []scenBudget{{"nitro_gc", 14000, 500000}, {"nitro", 8000, 250000}, {"nitro_backlog", 160, 4000}},
		Rule:   nitroRule("delete-heavy histories (several writers deleting the same key in nitro_gc overlap mode), 3-8 snapshots, closers racing on different snapshots in every order; oracle at scheduler-detected quiescence: versions linked at level 0 == model's expected physical set under the in-order pinning rule, GetLastGCSn, snapshot lists, MemoryInUse, ItemsCount == live linked items; a forced GC() is allowed only when Close/GC calls overlapped"),
		Real:   nReal, Stubbed: nStub, Assume: nAssume,
		WarnProbe: []string{"gc_trigger_lost_then_forced"},
	})
	defCheck(&checkDef{Prop: "C07", Level: "exploration",
		Scens:  []scenBudget{{"nitro", 10000, 300000}, {"nitro_gc", 6000, 200000}, {"nitro_race", 6000, 200000}},
		Rule:   nitroRule("any nitro history in user-managed-memory mode run to the end: all iterators and snapshots closed, optionally a burst of concurrent same-epoch put/delete pairs by every writer, then Nitro.Close as a task; oracle: guard allocator live set empty, no double/unknown free, barrier queue empty") + "; runs drawn with Go-managed memory exercise the same schedule space without the allocator oracle",
		Real:   nReal, Stubbed: nStub, Assume: nAssume,
		WarnProbe: []string{"bursts"},
	})
	defCheck(&checkDef{Prop: "C09", Level: "exploration",
		Scens:  []scenBudget{{"nitro_iter", 18000, 700000}, {"backup", 3000, 100000}},
		Rule:   nitroRule("cursor programs (SeekFirst, Seek(present/absent/below min/above max), Next x n, Refresh, SetRefreshRate) on any open snapshot while older/newer versions are physically present and writers/GC run; oracle: model cursor over the frozen sorted list, same for every refresh setting"),
		Real:   nReal, Stubbed: nStub, Assume: nAssume,
		WarnProbe: []string{"cursor_programs"},
	})
	defCheck(&checkDef{Prop: "C10", Level: "exploration",
		Scens:  []scenBudget{{"nitro_visit", 20000, 700000}},
		Rule:   nitroRule("Visitor on latest and older snapshots, shards 1-40, concurrency 1-8, injected callback errors, writers and GC running; oracle: per-shard ascending, shard i before shard i+1, concatenation == frozen content exactly once, injected error => non-nil result, termination within the step budget"),
		Real:   nReal, Stubbed: nStub, Assume: nAssume,
		WarnProbe: []string{"visits", "visit_multi_shard"},
	})
	c14 := checkDefs["C14"]
	c14.Scens = []scenBudget{{"sl", 30000, 1000000}, {"nitro", 8000, 250000}}
	c14.Real = append(c14.Real, nReal...)

	defCheck(&checkDef{Prop: "C08", Level: "exploration",
		Scens:  []scenBudget{{"handles", 30000, 1500000}, {"nitro", 6000, 200000}},
		Rule:   nitroRule("1-5 snapshots (stalls also inside the collection pass), 1-4 handle tasks per snapshot looping Open -> (scan | NewIterator -> scan -> Iterator.Close) -> Close without any harness-side protection, racing the owner's final Close; then 1-3 later snapshots are created and closed; oracle: porcupine counter spec per snapshot (Open succeeds iff count>0), exact scans through handles obtained by a successful Open, and at quiescence after GC(): GetSnapshots empty, GetLastGCSn == highest snapshot, physical set == live set"),
		Real:   nReal, Stubbed: nStub, Assume: nAssume,
		WarnProbe: []string{"handle_ops"},
	})

	dStub := append([]string{"disk faults: VerifWrapWriter substitutes the writer below bufio (ENOSPC budget, EIO, short write), VerifFS fails open/WriteFile/close boundaries; process death = copy of the real directory at a file-system boundary", "DiskBlockSize and shard count drawn per run"}, nStub...)
	defCheck(&checkDef{Prop: "C05", Level: "exploration",
		Scens:  []scenBudget{{"backup", 9000, 500000}},
		Rule:   nitroRule("1-4 phases of history, StoreToDisk of any open snapshot as a task while writers, snapshot churn, closers and GC continue (delta on/off, 1-33 shards, block size 16B-512KiB; in 30% of the runs the directory already holds a backup of an older snapshot), then LoadFromDisk into a fresh instance with the same configuration (concurrency 1-8), exact comparison, independent re-parse of every file, delta accounting, structural walk, and 0-2 further phases on the restored instance against the reference set"),
		Real:   nReal, Stubbed: dStub, Assume: nAssume,
		WarnProbe: []string{"item_only_in_delta", "item_in_data_and_delta", "delta_records_written"},
	})
	defCheck(&checkDef{Prop: "C11", Level: "fault_enumeration",
		Scens:  []scenBudget{{"damage", 48, 3000}},
		Rule:   "one simulated run = one generated small database (0-6 keys, several epochs, delta on/off, 1-16 shards) stored fault-free, then EVERY single damage of the backup directory (each file removed; each file truncated at every length; each byte of each file altered in 5 ways) plus sampled multi-shard combinations is applied to a copy and LoadFromDisk (concurrency 1/2/8) runs as a simulator task; one evaluation = one damaged load; all evaluations are distinct (file, position, kind) and non-trivial (a fault was applied); oracle: terminates (scheduler hang verdict otherwise), no panic, error or exact",
		Real:   nReal, Stubbed: dStub, Assume: []string{"single-fault space is complete per generated backup; backups and multi-fault combinations are sampled", "backups bounded to <= ~1 KiB"},
		WarnProbe: []string{"multi_shard_damages", "damage_detected", "backups_needing_their_delta_files"},
	})
	defCheck(&checkDef{Prop: "C12", Level: "fault_enumeration",
		Scens:  []scenBudget{{"wfault", 600, 30000}, {"crashimg", 1500, 60000}},
		Rule:   "wfault: one run = one generated database stored fault-free (measuring bytes, write calls, open and close boundaries), then re-stored once per fault point: ENOSPC at every byte budget 0..total, EIO and short write at every write call, failing open/WriteFile and close at every boundary (complete when the space fits the per-plan budget, seeded sample otherwise); oracle: StoreToDisk nil => LoadFromDisk exact. crashimg: one run = one StoreToDisk with an image of the directory captured before EVERY file-system mutation (plus the synthesised created-but-empty state of each manifest); oracle per image: LoadFromDisk returns an error or exactly the stored snapshot, never hangs or panics. one evaluation = one fault point / crash image; all distinct and non-trivial by construction",
		Real:   nReal, Stubbed: dStub, Assume: []string{"crash model is process death: completed system calls survive, user-space buffers are lost (nitro never fsyncs)"},
		WarnProbe: []string{"store_error_reported", "fs_boundaries", "backups_needing_their_delta_files"},
	})
	defCheck(&checkDef{Prop: "C19", Level: "exploration",
		Scens:  []scenBudget{{"codec", 20000, 600000}, {"backup", 6000, 200000}},
		Rule:   "codec: one run = 1-12 items (lengths 1,2,255,256,65535,65536,70000,random; contents biased to look like prefixes/terminators) obtained from a Nitro instance, EncodeItem into a simulated stream (optional write error at a drawn byte), DecodeItem (version 0 and 1) from a reader delivering PRNG-sized chunks, zero-length reads and an optional read error; oracle: decoded == written then end-of-stream, reader checksum == writer checksum == independent XOR-of-CRC32; backup: every shard file written by StoreToDisk re-parsed by an independent reader and compared with checksums.json. The KVToBytes/KVFromBytes/CompareKV clause is a pure function of its input (no schedule or fault dimension): its generated cases are counted separately as pure_input_cases. non-trivial = every run (a stream was chunked); distinct = distinct trace hash",
		Real:   []string{"nitro.EncodeItem/DecodeItem, rawFileWriter/rawFileReader through StoreToDisk/LoadFromDisk, KVToBytes/KVFromBytes/CompareKV"}, Stubbed: []string{"io.Writer/io.Reader below the codec (simulated stream with chunking and faults)"},
		Assume: []string{"items <= 70000 bytes"},
	})
	// failed backups must leave the collector able to work (oracle inside the write-fault enumeration)
	c06 := checkDefs["C06"]
	c06.Scens = append(c06.Scens, scenBudget{"wfault", 300, 15000})
	c07 := checkDefs["C07"]
	c07.Scens = append(c07.Scens, scenBudget{"backup", 5000, 150000})
	c04.Scens = append(c04.Scens, scenBudget{"backup", 4000, 120000}, scenBudget{"backup_race", 6000, 200000})
	c05 := checkDefs["C05"]
	c05.Scens = append(c05.Scens, scenBudget{"backup_race", 5000, 200000})
	c14.Scens = append(c14.Scens, scenBudget{"backup", 4000, 120000})

	defCheck(&checkDef{Prop: "C15", Level: "exploration",
		Scens:  []scenBudget{{"sliter", 40000, 1500000}, {"sl", 20000, 500000}},
		Rule:   "one evaluation = one plan: 2-6 stable items interleaved with churn keys, each churn key owned by one of 1-3 mutator tasks (so its possibly/definitely-present windows are known exactly from the stamped history), 1-2 iterator tasks running scans (SeekFirst or Seek(x), to the end or n steps, refresh interval, explicit Refresh, Pause/Resume), mutators aiming at the node the iterator stands on and its predecessor; oracle R1-R4 over the recorded history with every overlap resolved in favour of the code; non-trivial = a preemption inside an operation; distinct = distinct trace hash",
		Real:   slReal, Stubbed: slStub,
		Assume: []string{"items count as returned when the caller reads them after Seek/Next (the usual for-loop), not after Refresh"},
		WarnProbe: []string{"scans"},
	})
	defCheck(&checkDef{Prop: "C18", Level: "exploration",
		Scens:  []scenBudget{{"builder", 30000, 1000000}, {"merge", 30000, 1000000}},
		Rule:   "builder: 0-8 segments (empty ones leading, trailing, in the middle, all empty) of 0-20 ascending items filled by one task per segment concurrently (shared level CAS and allocator), Assemble, scan == concatenation, structural walk and statistics, then 1-3 clients running Insert2/Delete/Lookup on the assembled list checked with porcupine; non-trivial = a preemption inside an operation. merge: MergeIterator is sequential code over quiescent lists (no schedule dimension): generated cursor programs (SeekFirst, Seek(x), Next x n, re-positioning before/during/after a scan) over 0-5 lists with overlapping/disjoint/duplicate/empty contents against a sorted-multiset model, counted separately as sequential_cases; distinct = distinct trace hash",
		Real:   append([]string{"skiplist.Builder, Segment.Add, Assemble, MergeIterator"}, slReal...), Stubbed: slStub,
		Assume: []string{"merge-iterator clause has no interleaving to explore; it is checked by seeded generation only"},
		WarnProbe: []string{"segments"},
	})
	c14.Scens = append(c14.Scens, scenBudget{"builder", 8000, 250000})
}
