package nsim

func init() {
	barrierReal := []string{"skiplist.AccessBarrier (Acquire, Release, FlushSession, doCleanup) and its free queue skiplist"}
	barrierStub := []string{"goroutine scheduling (nsim scheduler decides who runs at every yield site)", "AccessBarrier mutex hand-off order (modelled lock, granted by the scheduler)", "node allocator for the host skiplist's sentinels (plain Go-heap allocator)"}
	defCheck(&checkDef{Prop: "C16", Level: "exploration",
		Scens:   []scenBudget{{"barrier", 60000, 3000000}},
		Rule:    "one evaluation = one generated plan (2-5 tasks x 1-12 Acquire/Release/FlushSession operations, nested holders, flushes by token holders) executed under one drawn schedule (random(p) / PCT(d<=4) / stall at a barrier site, worker bias, site-class subset); non-trivial = at least one preemption happened between the call and the return of a barrier operation; distinct = distinct 64-bit hash of the scheduling trace plus observed event log",
		Real:    barrierReal, Stubbed: barrierStub,
		Assume:  []string{"sequential consistency at the granularity of the yield sites (every atomic step of the barrier)", "plans bounded to <=5 tasks x <=12 operations"},
	})
	defCheck(&checkDef{Prop: "C17", Level: "exploration",
		Scens:   []scenBudget{{"barrier", 60000, 3000000}},
		Rule:    "same runs as C16; oracle evaluated when the scheduler reports quiescence (every task finished, nothing runnable): destructors run == FlushSession calls, free queue empty, allocated-freed == 1; non-trivial = at least one preemption inside a barrier operation; distinct = distinct trace hash",
		Real:    barrierReal, Stubbed: barrierStub,
		Assume:  []string{"quiescence is the scheduler verdict (no task runnable, all finished), not a sleep"},
	})
}
