package nsim

func init() {
	barrierReal := []string{"skiplist.AccessBarrier (Acquire, Release, FlushSession, doCleanup) and its free queue skiplist"}
	barrierStub := []string{"goroutine scheduling (nsim scheduler decides who runs at every yield site)", "AccessBarrier mutex hand-off order (modelled lock, granted by the scheduler)", "node allocator for the host skiplist's sentinels (plain Go-heap allocator)"}
	defCheck(&checkDef{Prop: "C16", Level: "exploration",
		Scens:   []scenBudget{{"barrier", 60000, 3000000}},
		Rule:    "one evaluation = one generated plan (2-5 tasks x 1-12 Acquire/Release/FlushSession operations, nested holders, flushes by token holders) executed under one drawn schedule (random(p) / PCT(d<=4) / stall at a barrier site, worker bias, site-class subset); non-trivial = at least one preemption happened between the call and the return of a barrier operation; distinct = distinct 64-bit hash of the scheduling trace plus observed event log",
		Real:    barrierReal, Stubbed: barrierStub,
		Assume:  []string{"sequential consistency at the granularity of the yield sites (every atomic step of the barrier)", "plans bounded to <=5 tasks x <=12 operations"},
	})
	defCheck(&checkDef{Prop: "C17", Level: "exploration",
		Scens:   []scenBudget{{"barrier", 60000, 3000000}},
		Rule:    "same runs as C16; oracle evaluated when the scheduler reports quiescence (every task finished, nothing runnable): destructors run == FlushSession calls, free queue empty, allocated-freed == 1; non-trivial = at least one preemption inside a barrier operation; distinct = distinct trace hash",
		Real:    barrierReal, Stubbed: barrierStub,
		Assume:  []string{"quiescence is the scheduler verdict (no task runnable, all finished), not a sleep"},
	})

	slReal := []string{"skiplist package used directly: Insert2/Insert4, Delete, DeleteNode/DeleteNode2, Lookup, findPath, helpDelete, softDelete, NewLevel, iterators, statistics, access barrier (user-managed mode)"}
	slStub := []string{"goroutine scheduling (nsim scheduler)", "node allocator in user-managed mode: guard allocator (own page per block, poison + mprotect on free, no address reuse)", "level choice: randFn supplied by the plan", "key comparator: harness comparator over int items (a yield point)"}
	defCheck(&checkDef{Prop: "C13", Level: "exploration",
		Scens:  []scenBudget{{"sl", 40000, 1500000}},
		Rule:   "one evaluation = one plan (2-4 client tasks x 2-10 Insert2/Delete/DeleteNode/Lookup over 1-4 contended keys plus stable neighbours, tower heights 0-6 and a pre-built ladder up to MaxLevel, Go-managed or guard-allocated nodes) under one drawn schedule; oracle = porcupine per-key register model incl. node identity for DeleteNode + final iterator scan as final reads; non-trivial = a preemption inside an operation; distinct = distinct trace hash",
		Real:   slReal, Stubbed: slStub,
		Assume: []string{"sequential consistency at yield-site granularity (every getNext load and dcasNext CAS)", "<=4 tasks x <=10 ops, <=4 contended keys"},
	})
	defCheck(&checkDef{Prop: "C14", Level: "exploration",
		Scens:  []scenBudget{{"sl", 40000, 1500000}},
		Rule:   "same runs as C13 (skiplist level); at scheduler-detected quiescence a non-yielding walk of all 33 levels checks chain/acyclic/strictly-increasing/sub-sequence/tower invariants and reconciles GetStats()/MemoryInUse()/allocs-frees with the walk and the allocator; non-trivial = a preemption inside an operation; distinct = distinct trace hash",
		Real:   slReal, Stubbed: slStub,
		Assume: []string{"quiescence is the scheduler verdict"},
	})
	defCheck(&checkDef{Prop: "C04", Level: "exploration",
		Scens:  []scenBudget{{"sl", 40000, 1500000}},
		Rule:   "user-managed memory with the guard allocator; every free checks the block is live (double/unknown free) and, for node blocks, that the node is not reachable on any level; any access to a freed block faults (mprotect) or trips the poison check; non-trivial = a preemption inside an operation; distinct = distinct trace hash",
		Real:   slReal, Stubbed: slStub,
		Assume: []string{"the guard allocator never reuses an address within a run"},
	})
}
