package nsim

import (
	"fmt"
	"os"
	"runtime/debug"
	"sort"
	"sync"
	"testing/synctest"
	"time"
	"unsafe"

	"github.com/couchbase/nitro"
	"github.com/couchbase/nitro/skiplist"
)

// Harness-level yield sites (>= 1000). Site classes are used by siteSubset.
const (
	SiteHarnessOp = 1000 + iota
	SiteHarnessCmp
	SiteHarnessMalloc
	SiteHarnessFree
	SiteHarnessCallback
	SiteHarnessStart
	SiteHarnessLock
	SiteHarnessCond
	SiteHarnessIO
	SiteHarnessMax
)

const (
	classSkiplist = iota
	classBarrier
	classNitro
	classHarness
	classCallback
	numClasses
)

var classNames = [numClasses]string{"skiplist", "barrier", "nitro", "harness", "callback"}

func siteClass(site int) int {
	switch {
	case site >= SiteHarnessOp:
		if site == SiteHarnessCmp || site == SiteHarnessMalloc || site == SiteHarnessFree || site == SiteHarnessCallback {
			return classCallback
		}
		return classHarness
	case site >= skiplist.SiteSkiplistMax:
		return classNitro
	case site == skiplist.SiteInsertRelinkedMarked:
		return classSkiplist
	case site >= skiplist.SiteAcqLoad:
		return classBarrier
	default:
		return classSkiplist
	}
}

type taskState int

const (
	tsParked taskState = iota
	tsRunning
	tsMayBlock
	tsWoken
	tsLockWait
	tsCondWait
	tsDone
)

var stateNames = []string{"parked", "running", "blocked", "woken", "lockwait", "condwait", "done"}

// Task is one simulated actor: a real goroutine that runs only when the
// scheduler releases it.
type Task struct {
	Name    string
	label   string
	id      int
	harness bool
	ch      chan struct{}
	state   taskState
	site    int
	lockPtr unsafe.Pointer
	cond    func() bool
	prio    int
	tok     uintptr
	stallTo int
	steps   int
}

// Seg is one scheduling segment: task T was released and passed N yield
// points before it parked, blocked or finished.
type Seg struct {
	T string `json:"t"`
	N int    `json:"n"`
}

// SchedPlan holds every parameter of the schedule search of one run.
type SchedPlan struct {
	Strategy   string  `json:"strategy"` // random | pct | follow
	P          float64 `json:"p,omitempty"`
	Depth      int     `json:"depth,omitempty"`
	EstSteps   int     `json:"est_steps,omitempty"`
	Bias       string  `json:"bias,omitempty"` // fair | eager | lazy
	StallSite  int     `json:"stall_site,omitempty"`
	StallNth   int     `json:"stall_nth,omitempty"`
	StallLen   int     `json:"stall_len,omitempty"`
	Stall2Site int     `json:"stall2_site,omitempty"` // optional second stalled task
	Stall2Nth  int     `json:"stall2_nth,omitempty"`
	Stall2Len  int     `json:"stall2_len,omitempty"`
	Disabled   []int   `json:"disabled_classes,omitempty"`
	Seed       uint64  `json:"seed"`
	MaxSteps   int     `json:"max_steps,omitempty"`
	Follow     []Seg   `json:"follow,omitempty"`
	TickChance float64 `json:"tick_chance,omitempty"`
}

type Verdict int

const (
	VQuiescent Verdict = iota
	VHang
	VBudget
	VAbort
)

func (v Verdict) String() string {
	return [...]string{"quiescent", "hang", "budget", "abort"}[v]
}

// Sched is the deterministic scheduler of one run.
type Sched struct {
	mu      sync.Mutex
	tasks   []*Task
	pending []*Task
	reg     []*Task
	cur     *Task
	locks   map[unsafe.Pointer]*Task
	plan    SchedPlan
	rng     *Rng

	disabled   [numClasses]bool
	steps      int // enabled yield points passed, all tasks
	picks      int
	switches   int
	segSteps   int
	followIdx  int
	followLeft int
	diverged   int
	changePts  map[int]bool
	lowPrio    int
	stallHits  int
	stall2Hits int
	abort      bool
	abortWhy   string
	abortStack string
	faultAddr  uintptr
	faulted    bool
	seq        int64
	simTime    time.Duration
	trace      []Seg
	traceSites []int
	rawTotal   int // yield points passed at disabled sites
	hash       uint64
	sitePairs  map[[2]int]int
	lastSite   int
	labelCount map[string]int
	sleepSites map[int]bool
	preempts   int // parks that happened inside a harness operation
	inOp       int
	rawRun     int
	spinner    *Task
	lastPick   *Task
	soloSteps  int
	lastPickAt int
	siteHits   map[int]int
	OnLock     func(t *Task)
	OnIdle     func() // optional: called by root when nothing is runnable (before tick)
}

func NewSched(plan SchedPlan) *Sched {
	s := &Sched{
		plan:       plan,
		rng:        NewRng(plan.Seed, purposeSched),
		locks:      map[unsafe.Pointer]*Task{},
		changePts:  map[int]bool{},
		sitePairs:  map[[2]int]int{},
		siteHits:   map[int]int{},
		labelCount: map[string]int{},
		sleepSites: map[int]bool{nitro.SiteCloseSleep: true},
		hash:       1469598103934665603,
	}
	for _, c := range plan.Disabled {
		if c >= 0 && c < numClasses {
			s.disabled[c] = true
		}
	}
	if s.plan.MaxSteps == 0 {
		s.plan.MaxSteps = 300000
	}
	if plan.Strategy == "pct" {
		est := plan.EstSteps
		if est < 10 {
			est = 10
		}
		for i := 0; i < plan.Depth; i++ {
			s.changePts[1+s.rng.Intn(est)] = true
		}
	}
	return s
}

func (s *Sched) hashMix(v uint64) {
	s.hash ^= v
	s.hash *= 1099511628211
}

func (s *Sched) hashStr(str string) {
	for i := 0; i < len(str); i++ {
		s.hashMix(uint64(str[i]))
	}
}

// Install points the verif hooks of nitro/skiplist at this scheduler.
func (s *Sched) Install() {
	skiplist.SimYield = s.yield
	skiplist.SimBlock = s.block
	skiplist.SimEnter = s.enter
	skiplist.SimStart = s.start
	skiplist.SimExit = s.exit
	skiplist.SimLock = s.lock
	skiplist.SimUnlock = s.unlock
}

func Uninstall() {
	skiplist.SimYield = nil
	skiplist.SimBlock = nil
	skiplist.SimEnter = nil
	skiplist.SimStart = nil
	skiplist.SimExit = nil
	skiplist.SimLock = nil
	skiplist.SimUnlock = nil
}

func (s *Sched) register(t *Task) {
	s.mu.Lock()
	s.reg = append(s.reg, t)
	t.tok = uintptr(len(s.reg))
	s.pending = append(s.pending, t)
	s.mu.Unlock()
}

// Go creates a harness task. It may be called by the root before Run or by a
// running task; the new task becomes schedulable at the next scheduling step.
func (s *Sched) Go(name string, fn func()) *Task {
	t := &Task{Name: name, label: name, harness: true, ch: make(chan struct{}), state: tsWoken, site: SiteHarnessStart}
	s.register(t)
	go func() {
		<-t.ch
		debug.SetPanicOnFault(true)
		defer func() {
			if r := recover(); r != nil {
				s.abortStack = string(debug.Stack())
				msg := fmt.Sprintf("panic in task %s: %v", t.Name, r)
				if fa, ok := r.(interface{ Addr() uintptr }); ok {
					s.faultAddr = fa.Addr()
					s.faulted = true
					msg = fmt.Sprintf("memory fault in task %s at address %#x", t.Name, fa.Addr())
				}
				s.Abort(msg)
			}
			t.state = tsDone
		}()
		fn()
	}()
	return t
}

// Abort stops the run: the root returns VAbort at its next step.
func (s *Sched) Abort(why string) {
	s.mu.Lock()
	if !s.abort {
		s.abort = true
		s.abortWhy = why
	}
	s.mu.Unlock()
}

func (s *Sched) AbortReason() string { return s.abortWhy }
func (s *Sched) AbortStack() string  { return s.abortStack }
func (s *Sched) FaultAddr() uintptr  { return s.faultAddr }
func (s *Sched) Faulted() bool       { return s.faulted }
func (s *Sched) SiteHits(site int) int { return s.siteHits[site] }

// Stamp returns the next global event sequence number.
func (s *Sched) Stamp() int64 {
	s.seq++
	return s.seq
}

func (s *Sched) Seq() int64 { return s.seq }

// Cur returns the running task (nil in root context).
func (s *Sched) Cur() *Task { return s.cur }

// BeginOp/EndOp bracket a harness-level operation of the property's subject
// so that preemptions inside operations can be counted.
func (s *Sched) BeginOp() { s.inOp++ }
func (s *Sched) EndOp()   { s.inOp-- }

// Yield is a harness-level scheduling point.
func (s *Sched) Yield(site int) { s.yield(site) }

// ForceYield always parks the running task and lets the root decide.
func (s *Sched) ForceYield(site int) {
	t := s.cur
	if t == nil {
		return
	}
	s.steps++
	t.steps++
	s.park(t, site, tsParked)
}

// WaitUntil parks the running task until cond (evaluated by the root while
// everything is quiescent) holds.
func (s *Sched) WaitUntil(cond func() bool) {
	t := s.cur
	if t == nil {
		panic("WaitUntil outside a task")
	}
	if cond() {
		return
	}
	t.cond = cond
	s.park(t, SiteHarnessCond, tsCondWait)
	t.cond = nil
}

func (s *Sched) park(t *Task, site int, st taskState) {
	t.site = site
	t.state = st
	<-t.ch
}

func (s *Sched) yield(site int) {
	t := s.cur
	if t == nil || t.state != tsRunning {
		return
	}
	if site == skiplist.SiteInsertRelinkedMarked {
		s.siteHits[site]++
	}
	if s.disabled[siteClass(site)] {
		// a task spinning only through disabled sites must still be preemptible:
		// after a long uninterrupted stretch the site counts as enabled
		s.rawRun++
		s.rawTotal++
		if s.rawTotal > 20*s.plan.MaxSteps {
			// an endless loop through disabled sites only: the step budget applies
			s.steps = s.plan.MaxSteps + 1
			s.park(t, site, tsParked)
			return
		}
		if s.rawRun < 3000 {
			return
		}
	}
	s.rawRun = 0
	s.steps++
	t.steps++
	if s.plan.StallSite == site && s.plan.StallLen > 0 {
		s.stallHits++
		if s.stallHits == s.plan.StallNth {
			t.stallTo = s.picks + s.plan.StallLen
			s.park(t, site, tsParked)
			return
		}
	}
	if s.plan.Stall2Site == site && s.plan.Stall2Len > 0 {
		s.stall2Hits++
		if s.stall2Hits == s.plan.Stall2Nth {
			t.stallTo = s.picks + s.plan.Stall2Len
			s.park(t, site, tsParked)
			return
		}
	}
	if s.steps > s.plan.MaxSteps {
		s.park(t, site, tsParked)
		return
	}
	if s.segSteps > 3000 && s.plan.Strategy != "follow" {
		// fairness: a task that runs this long without parking is spinning on somebody
		// else's progress (nitro has such loops); strict priorities or a worker bias
		// would starve the task it waits for. Let the others run.
		s.spinner = t
		s.park(t, site, tsParked)
		return
	}
	cont := false
	switch s.plan.Strategy {
	case "follow":
		if s.followLeft > 0 {
			s.followLeft--
			cont = true
		}
	case "pct":
		if s.changePts[s.steps] {
			s.lowPrio--
			t.prio = s.lowPrio
		} else {
			cont = true
		}
	default:
		cont = s.rng.Float() >= s.plan.P
	}
	if cont {
		// N of a segment counts the yield points passed without parking
		s.segSteps++
		return
	}
	s.park(t, site, tsParked)
}

func (s *Sched) block(site int) uintptr {
	t := s.cur
	if t == nil || t.state != tsRunning {
		return 0
	}
	t.state = tsMayBlock
	t.site = site
	return t.tok
}

func (s *Sched) enter(site int, tok uintptr) {
	if tok == 0 {
		return
	}
	s.mu.Lock()
	t := s.reg[tok-1]
	running := s.cur == t
	if !running {
		t.state = tsWoken
		t.site = site
	}
	s.mu.Unlock()
	if running {
		// The operation did not block. It may have woken other goroutines:
		// always hand control back to the root.
		t.state = tsRunning
		s.steps++
		t.steps++
		s.park(t, site, tsParked)
		return
	}
	<-t.ch
}

var startLabels = map[int]string{}

func (s *Sched) start(site int, id int) {
	label := siteName(site)
	if id != 0 {
		label = fmt.Sprintf("%s%d", label, id)
	}
	t := &Task{label: label, id: id, ch: make(chan struct{}), state: tsWoken, site: site}
	s.register(t)
	<-t.ch
}

func (s *Sched) exit() {
	t := s.cur
	if t == nil {
		return
	}
	t.state = tsDone
}

func (s *Sched) lock(mu unsafe.Pointer) {
	t := s.cur
	if t == nil || t.state != tsRunning {
		return
	}
	s.yield(SiteHarnessLock)
	if s.locks[mu] == nil {
		s.locks[mu] = t
		if s.OnLock != nil {
			s.OnLock(t)
		}
		return
	}
	t.lockPtr = mu
	s.park(t, SiteHarnessLock, tsLockWait)
	// the root granted the lock before releasing us
	if s.OnLock != nil {
		s.OnLock(t)
	}
}

func (s *Sched) unlock(mu unsafe.Pointer) {
	t := s.cur
	if t == nil {
		return
	}
	if s.locks[mu] == t {
		delete(s.locks, mu)
	}
	for _, o := range s.tasks {
		if o.state == tsLockWait && o.lockPtr == mu {
			s.steps++
			s.park(t, SiteHarnessLock, tsParked)
			return
		}
	}
}

func (s *Sched) absorb() {
	s.mu.Lock()
	pend := s.pending
	s.pending = nil
	s.mu.Unlock()
	if len(pend) > 0 {
		sort.SliceStable(pend, func(i, j int) bool {
			if pend[i].label != pend[j].label {
				return pend[i].label < pend[j].label
			}
			return pend[i].id < pend[j].id
		})
		for _, t := range pend {
			if !t.harness {
				k := s.labelCount[t.label]
				s.labelCount[t.label] = k + 1
				t.Name = fmt.Sprintf("%s#%d", t.label, k)
			}
			if s.plan.Strategy == "pct" {
				t.prio = 1 + s.rng.Intn(1<<30)
			}
			s.tasks = append(s.tasks, t)
		}
	}
	for _, t := range s.tasks {
		if t.state == tsWoken {
			t.state = tsParked
		}
	}
}

func (s *Sched) isRunnable(t *Task) bool {
	switch t.state {
	case tsParked:
		return true
	case tsLockWait:
		return s.locks[t.lockPtr] == nil
	case tsCondWait:
		return t.cond()
	}
	return false
}

func (s *Sched) harnessDone() bool {
	for _, t := range s.tasks {
		if t.harness && t.state != tsDone {
			return false
		}
	}
	return true
}

var dumpSegs *os.File

func (s *Sched) closeSegment() {
	if s.cur == nil {
		return
	}
	t := s.cur
	s.trace = append(s.trace, Seg{T: t.Name, N: s.segSteps})
	s.traceSites = append(s.traceSites, t.site)
	s.hashStr(t.Name)
	s.hashMix(uint64(s.segSteps))
	s.hashMix(uint64(t.site)<<8 | uint64(t.state))
	if dumpSegs != nil {
		fmt.Fprintf(dumpSegs, "%s %d %s %d\n", t.Name, s.segSteps, siteName(t.site), t.state)
	}
	if s.inOp > 0 && t.state != tsDone {
		s.preempts++
	}
}

// Run is the scheduler loop; it must be called by the root goroutine of the
// synctest bubble.
func (s *Sched) Run() Verdict {
	idle := 0
	for {
		synctest.Wait()
		s.closeSegment()
		s.cur = nil
		s.absorb()
		if s.abort {
			return VAbort
		}
		var runnable []*Task
		var stalled []*Task
		sleepers := false
		for _, t := range s.tasks {
			if s.isRunnable(t) {
				if t.stallTo > s.picks {
					stalled = append(stalled, t)
				} else {
					runnable = append(runnable, t)
				}
			} else if t.state == tsMayBlock && s.sleepSites[t.site] {
				sleepers = true
			}
		}
		if len(runnable) == 0 {
			runnable = stalled
		}
		if len(runnable) == 0 {
			if s.harnessDone() && !sleepers {
				return VQuiescent
			}
			if idle >= 2 {
				return VHang
			}
			idle++
			if s.OnIdle != nil {
				s.OnIdle()
			}
			time.Sleep(time.Millisecond)
			s.simTime += time.Millisecond
			continue
		}
		idle = 0
		if s.steps > s.plan.MaxSteps || s.picks > s.plan.MaxSteps {
			return VBudget
		}
		if sleepers && s.plan.TickChance > 0 && s.plan.Strategy != "follow" && s.rng.Float() < s.plan.TickChance {
			time.Sleep(time.Millisecond)
			s.simTime += time.Millisecond
			s.trace = append(s.trace, Seg{T: "@tick", N: 0})
			s.traceSites = append(s.traceSites, 0)
			continue
		}
		before := s.steps
		t := s.pick(runnable)
		if t != nil {
			if t == s.lastPick {
				s.soloSteps += before - s.lastPickAt
			} else {
				s.soloSteps = 0
			}
			s.lastPick = t
			s.lastPickAt = before
		}
		if t == nil { // follow mode requested a clock tick
			time.Sleep(time.Millisecond)
			s.simTime += time.Millisecond
			continue
		}
		s.picks++
		if s.lastSite != 0 {
			s.sitePairs[[2]int{s.lastSite, t.site}]++
		}
		s.lastSite = t.site
		if t.state == tsLockWait {
			s.locks[t.lockPtr] = t
			t.lockPtr = nil
		}
		t.state = tsRunning
		s.cur = t
		s.segSteps = 0
		s.rawRun = 0
		t.ch <- struct{}{}
	}
}

func (s *Sched) pick(runnable []*Task) *Task {
	if s.plan.Strategy == "follow" {
		for s.followIdx < len(s.plan.Follow) {
			seg := s.plan.Follow[s.followIdx]
			s.followIdx++
			if seg.T == "@tick" {
				return nil
			}
			for _, t := range runnable {
				if t.Name == seg.T {
					s.followLeft = seg.N
					return t
				}
			}
			s.diverged++
		}
		// past the end of the recorded schedule: run to completion, first runnable
		s.followLeft = 1 << 30
		return runnable[0]
	}
	// fairness: when one task has been the only one running for a long stretch although
	// others are runnable (worker bias or priorities keep selecting it while it spins on
	// their progress), somebody else gets a turn
	if s.lastPick != nil && s.soloSteps > 3000 && s.spinner == nil && s.plan.Strategy != "follow" {
		s.spinner = s.lastPick
	}
	if s.spinner != nil {
		sp := s.spinner
		s.spinner = nil
		var others []*Task
		for _, t := range runnable {
			if t != sp {
				others = append(others, t)
			}
		}
		if len(others) > 0 {
			return others[s.rng.Intn(len(others))]
		}
	}
	cands := runnable
	switch s.plan.Bias {
	case "eager":
		var w []*Task
		for _, t := range runnable {
			if !t.harness {
				w = append(w, t)
			}
		}
		if len(w) > 0 {
			cands = w
		}
	case "lazy":
		var h []*Task
		for _, t := range runnable {
			if t.harness {
				h = append(h, t)
			}
		}
		if len(h) > 0 {
			cands = h
		}
	}
	if s.plan.Strategy == "pct" {
		best := cands[0]
		for _, t := range cands[1:] {
			if t.prio > best.prio {
				best = t
			}
		}
		return best
	}
	return cands[s.rng.Intn(len(cands))]
}

// Describe lists the unfinished tasks and where they are (for hang reports).
func (s *Sched) Describe() []string {
	var out []string
	for _, t := range s.tasks {
		if t.state != tsDone {
			out = append(out, fmt.Sprintf("%s:%s@%s", t.Name, stateNames[t.state], siteName(t.site)))
		}
	}
	return out
}

func (s *Sched) Trace() []Seg       { return s.trace }
func (s *Sched) TraceHash() uint64  { return s.hash }
func (s *Sched) Steps() int         { return s.steps }
func (s *Sched) Picks() int         { return s.picks }
func (s *Sched) Preempts() int      { return s.preempts }
func (s *Sched) Diverged() int      { return s.diverged }
func (s *Sched) SimTime() time.Duration { return s.simTime }
func (s *Sched) SitePairs() map[[2]int]int { return s.sitePairs }

var siteNames = map[int]string{
	skiplist.SiteGetNext: "getNext", skiplist.SiteDcasNext: "dcasNext", skiplist.SiteNewLevelCAS: "newLevelCAS",
	skiplist.SiteHelpDeleteStats: "helpDeleteStats", skiplist.SiteInsertStats: "insertStats", skiplist.SiteSoftDeleteStats: "softDeleteStats",
	skiplist.SiteAcqLoad: "acqLoad", skiplist.SiteAcqInc: "acqInc", skiplist.SiteAcqBackoff: "acqBackoff",
	skiplist.SiteRelDec: "relDec", skiplist.SiteRelLatch: "relLatch", skiplist.SiteRelInsert: "relInsert",
	skiplist.SiteRelTryLock: "relTryLock", skiplist.SiteRelTryUnlock: "relTryUnlock",
	skiplist.SiteCleanupIter: "cleanupIter", skiplist.SiteCleanupCallb: "cleanupCallb", skiplist.SiteCleanupDelete: "cleanupDelete",
	skiplist.SiteFlushSwap: "flushSwap", skiplist.SiteFlushAdd: "flushAdd", skiplist.SiteInsertRelinkedMarked: "insertRelinkedMarked",
	nitro.SiteDelSetLink: "delSetLink", nitro.SiteDelDeadCAS: "delDeadCAS", nitro.SiteDelAppend: "delAppend", nitro.SiteDelFlush: "delFlush",
	nitro.SiteOpenInc: "openInc", nitro.SiteCloseDec: "closeDec", nitro.SiteCloseRetire: "closeRetire", nitro.SiteCloseMove: "closeMove",
	nitro.SiteCloseGC: "closeGC", nitro.SiteGCTry: "gcTry", nitro.SiteGCRelease: "gcRelease", nitro.SiteCollectCheck: "collectCheck",
	nitro.SiteCollectStore: "collectStore", nitro.SiteCollectSend: "collectSend", nitro.SiteCollectDelete: "collectDelete",
	nitro.SiteGCWStart: "gcw", nitro.SiteGCWSelect: "gcwSelect", nitro.SiteGCWDelta: "gcwDelta", nitro.SiteGCWUnlink: "gcwUnlink",
	nitro.SiteGCWFlush: "gcwFlush", nitro.SiteFreeWStart: "freew", nitro.SiteFreeWRecv: "freewRecv", nitro.SiteFreeWNode: "freewNode",
	nitro.SiteDestructorSend: "destructorSend", nitro.SiteCloseSleep: "closeSleep", nitro.SiteCloseChan: "closeChan",
	nitro.SiteCloseWait: "closeWait", nitro.SiteVisitorWorker: "visw", nitro.SiteVisitorRecv: "viswRecv", nitro.SiteVisitorSend: "visSend",
	nitro.SiteVisitorWait: "visWait", nitro.SiteVisitorPivot: "visPivot", nitro.SiteVisitorItem: "visItem", nitro.SiteDeltaSend: "deltaSend",
	nitro.SiteDeltaRecv: "deltaRecv", nitro.SiteCheckpoint: "checkpoint", nitro.SiteLoadWorker: "loadw", nitro.SiteLoadRecv: "loadwRecv",
	nitro.SiteLoadSend: "loadSend", nitro.SiteLoadWait: "loadWait", nitro.SiteLoadDeltaWorker: "loaddw", nitro.SiteSkipUnwanted: "skipUnwanted",
	nitro.SiteExistCmp: "existCmp", nitro.SiteNewSnapshot: "newSnapshot", nitro.SiteIterRefresh: "iterRefresh",
	SiteHarnessOp: "h.op", SiteHarnessCmp: "h.cmp", SiteHarnessMalloc: "h.malloc", SiteHarnessFree: "h.free",
	SiteHarnessCallback: "h.callback", SiteHarnessStart: "h.start", SiteHarnessLock: "h.lock", SiteHarnessCond: "h.cond", SiteHarnessIO: "h.io",
}

func siteName(site int) string {
	if n, ok := siteNames[site]; ok {
		return n
	}
	return fmt.Sprintf("site%d", site)
}

// Abandon gives up every unfinished task (their goroutines stay blocked
// forever): used after a hang verdict so that the run can go on with other work.
func (s *Sched) Abandon() {
	s.absorb()
	for _, t := range s.tasks {
		if t.state != tsDone {
			t.state = tsDone
		}
	}
	s.cur = nil
	s.locks = map[unsafe.Pointer]*Task{}
	s.abort = false
}
