package nsim

import (
	"bufio"
	"bytes"
	"encoding/json"
	"fmt"
	"os"
	"os/exec"
	"path/filepath"
	"regexp"
	"runtime"
	"sort"
	"strings"
	"sync"
	"testing"
	"time"
)

// ---------------------------------------------------------------------------
// check table: which scenarios decide which property, and how many runs per tier

type scenBudget struct {
	Scen     string
	Quick    int
	Thorough int
}

type checkDef struct {
	Prop      string
	Level     string
	Scens     []scenBudget
	Rule      string
	Real      []string
	Stubbed   []string
	Assume    []string
	WarnProbe []string // probes that must be non-zero in the thorough tier
}

var checkDefs = map[string]*checkDef{}

func defCheck(c *checkDef) { checkDefs[c.Prop] = c }

var commonReal = []string{"nitro (all of nitro.go, iterator.go, item.go, file.go)", "skiplist (lock-free list, iterators, builder, access barrier)", "Go channels, WaitGroups and mutexes of the real code", "bufio and the real file system under a per-run temporary directory"}
var commonStubbed = []string{"goroutine scheduling (nsim scheduler decides who runs at every yield site)", "clock (testing/synctest fake clock)", "select tie-breaking in collectionWorker (deterministic poll)", "allocator (guard allocator instead of jemalloc; package mm not exercised)", "math/rand seeding", "runtime.NumCPU() as shard count"}

// ---------------------------------------------------------------------------
// worker: runs a range of run indices of one scenario, one JSON line per run

type workerAgg struct {
	Probes    map[string]int `json:"probes"`
	Faults    map[string]int `json:"faults"`
	Cases     map[string]int `json:"cases"`
	Strat     map[string]int `json:"strat"`
	SitePairs []int          `json:"site_pairs"`
	SimTimeNs int64          `json:"sim_time_ns"`
	Steps     int64          `json:"steps"`
	Picks     int64          `json:"picks"`
	Preempts  int64          `json:"preempts"`
}

type workerRes struct {
	I          int         `json:"i"`
	Hash       string      `json:"h"`
	Verdict    string      `json:"v"`
	Nontrivial bool        `json:"nt"`
	Incon      string      `json:"inc,omitempty"`
	Viol       []Violation `json:"viol,omitempty"`
	Sample     *RunResult  `json:"sample,omitempty"`
}

func TestWorker(t *testing.T) {
	name := os.Getenv("NSIM_SCEN")
	if name == "" || os.Getenv("NSIM_MODE") != "worker" {
		t.Skip()
	}
	sc := scenarios[name]
	if sc == nil {
		t.Fatalf("unknown scenario %q", name)
	}
	base := envU64("NSIM_BASE", 1)
	from := envInt("NSIM_FROM", 0)
	count := envInt("NSIM_COUNT", 1)
	tier := os.Getenv("NSIM_TIER")
	samples := envInt("NSIM_SAMPLES", 0)
	out := bufio.NewWriter(os.Stdout)
	defer out.Flush()
	agg := workerAgg{Probes: map[string]int{}, Faults: map[string]int{}, Cases: map[string]int{}, Strat: map[string]int{}}
	pairs := map[int]bool{}
	for i := from; i < from+count; i++ {
		fmt.Fprintf(out, "RUN %d\n", i)
		out.Flush()
		// wall-clock watchdog: a run that does not end is infrastructure trouble, never a violation
		wd := time.AfterFunc(5*time.Minute, func() {
			fmt.Fprintf(os.Stderr, "WATCHDOG: run %d of %s exceeded 5 minutes of wall-clock time\n", i, name)
			os.Exit(3)
		})
		seed := RunSeed(base, uint64(i))
		plan := sc.Gen(seed, tier)
		verbose := samples > 0
		res := RunPlan(t, sc, plan, verbose)
		wd.Stop()
		wr := workerRes{I: i, Hash: res.TraceHash, Verdict: res.Verdict, Incon: res.Inconclusive, Viol: res.Violations}
		wr.Nontrivial = res.Preempts > 0 || res.Cases["nontrivial"] > 0
		if verbose && wr.Nontrivial {
			res.Plan = plan
			if len(res.Log) > 60 {
				res.Log = append(res.Log[:60], fmt.Sprintf("... (%d more lines)", len(res.Log)-60))
			}
			if len(res.Trace) > 80 {
				res.Trace = res.Trace[:80]
			}
			res.SitePairs = nil
			wr.Sample = res
			samples--
		}
		for k, v := range res.Probes {
			agg.Probes[k] += v
		}
		for k, v := range res.Faults {
			agg.Faults[k] += v
		}
		for k, v := range res.Cases {
			agg.Cases[k] += v
		}
		st := plan.Sched.Strategy
		if plan.Sched.StallLen > 0 {
			st = "stall"
			if plan.Sched.Stall2Len > 0 {
				st = "stall2"
			}
		}
		agg.Strat[st+"/"+plan.Sched.Bias]++
		if wr.Sample == nil {
			for _, p := range res.SitePairs {
				pairs[p] = true
			}
		}
		agg.SimTimeNs += res.SimTimeNs
		agg.Steps += int64(res.Steps)
		agg.Picks += int64(res.Picks)
		agg.Preempts += int64(res.Preempts)
		b, _ := json.Marshal(wr)
		fmt.Fprintf(out, "RES %s\n", b)
	}
	for p := range pairs {
		agg.SitePairs = append(agg.SitePairs, p)
	}
	sort.Ints(agg.SitePairs)
	b, _ := json.Marshal(agg)
	fmt.Fprintf(out, "AGG %s\n", b)
}

// ---------------------------------------------------------------------------
// replay / try: run plans from a file

type replayFile struct {
	Property string  `json:"property"`
	Scenario string  `json:"scenario"`
	Seed     uint64  `json:"seed"`
	Plan     *Plan   `json:"plan"`
	Expect   expectT `json:"expect"`
	Note     string  `json:"note,omitempty"`
}

type expectT struct {
	Sig       string `json:"sig"`
	TraceHash string `json:"trace_hash,omitempty"`
	Crash     bool   `json:"crash,omitempty"`
	Detail    string `json:"detail,omitempty"`
}

// TestReplay re-executes a replay file. Exit status (through the REPLAY line
// parsed by ./check): reproduced -> 1, clean -> 0, diverged -> 2.
func TestReplay(t *testing.T) {
	path := os.Getenv("NSIM_REPLAY")
	if path == "" {
		t.Skip()
	}
	b, err := os.ReadFile(path)
	if err != nil {
		t.Fatal(err)
	}
	var rf replayFile
	if err := json.Unmarshal(b, &rf); err != nil {
		t.Fatal(err)
	}
	sc := scenarios[rf.Scenario]
	if sc == nil {
		t.Fatalf("unknown scenario %q", rf.Scenario)
	}
	fmt.Printf("REPLAY-START property=%s sig=%s seed=%d\n", rf.Property, rf.Expect.Sig, rf.Seed)
	res := RunPlan(t, sc, rf.Plan, true)
	for _, l := range res.Log {
		fmt.Println("  | " + l)
	}
	found := false
	for _, v := range res.Violations {
		if v.Property == rf.Property && v.Sig == rf.Expect.Sig {
			found = true
			fmt.Printf("REPLAY-VIOLATION property=%s sig=%s detail=%s\n", v.Property, v.Sig, v.Detail)
		}
	}
	switch {
	case found && (rf.Expect.TraceHash == "" || rf.Expect.TraceHash == res.TraceHash):
		fmt.Printf("REPLAY-RESULT reproduced trace_hash=%s\n", res.TraceHash)
	case found:
		fmt.Printf("REPLAY-RESULT reproduced-different-trace trace_hash=%s expected=%s\n", res.TraceHash, rf.Expect.TraceHash)
	case rf.Expect.TraceHash == res.TraceHash:
		fmt.Printf("REPLAY-RESULT same-trace-no-violation trace_hash=%s\n", res.TraceHash)
	default:
		fmt.Printf("REPLAY-RESULT clean-or-diverged trace_hash=%s expected=%s diverged_picks=%d violations=%v\n", res.TraceHash, rf.Expect.TraceHash, res.Diverged, res.Violations)
	}
}

// TestTry runs one candidate plan (NSIM_TRY=file) with its own schedule and
// then with NSIM_TRIES derived schedule seeds; prints TRY-HIT <json> for the
// first run showing the wanted signature. Used by the minimiser.
func TestTry(t *testing.T) {
	path := os.Getenv("NSIM_TRY")
	if path == "" {
		t.Skip()
	}
	b, err := os.ReadFile(path)
	if err != nil {
		t.Fatal(err)
	}
	var rf replayFile
	if err := json.Unmarshal(b, &rf); err != nil {
		t.Fatal(err)
	}
	sc := scenarios[rf.Scenario]
	tries := envInt("NSIM_TRIES", 0)
	stepBudget := envInt("NSIM_TRY_STEPS", 1500000)
	usedSteps := 0
	for k := 0; k <= tries && (k == 0 || usedSteps < stepBudget); k++ {
		plan := *rf.Plan
		if k > 0 {
			r := NewRng(rf.Plan.Sched.Seed+uint64(k)*7919, purposeSched)
			sp := GenSched(r, rf.Plan.Sched.Seed+uint64(k)*7919, rf.Plan.Sched.EstSteps, nil)
			if rf.Plan.Sched.StallLen > 0 && k%2 == 1 {
				sp.StallSite, sp.StallNth, sp.StallLen = rf.Plan.Sched.StallSite, rf.Plan.Sched.StallNth, rf.Plan.Sched.StallLen
			}
			sp.Disabled = rf.Plan.Sched.Disabled
			plan.Sched = sp
		}
		fmt.Printf("TRY-RUN %d\n", k)
		res := RunPlan(t, sc, &plan, true)
		usedSteps += res.Steps + 200
		for _, v := range res.Violations {
			if v.Property == rf.Property && v.Sig == rf.Expect.Sig {
				plan.Sched.Follow = nil
				hit := replayFile{Property: rf.Property, Scenario: rf.Scenario, Seed: rf.Seed, Plan: &plan,
					Expect: expectT{Sig: v.Sig, TraceHash: res.TraceHash, Detail: v.Detail}}
				// also try to pin the schedule as an explicit decision list
				fp := plan
				fp.Sched.Strategy = "follow"
				fp.Sched.Follow = res.Trace
				if len(res.Trace) > 20000 {
					// too long to be a useful decision list: plan + schedule seed already replay exactly
					hb, _ := json.Marshal(hit)
					fmt.Printf("TRY-HIT %s\n", hb)
					return
				}
				fres := RunPlan(t, sc, &fp, false)
				for _, fv := range fres.Violations {
					if fv.Property == rf.Property && fv.Sig == rf.Expect.Sig {
						hit.Plan = &fp
						hit.Expect.TraceHash = fres.TraceHash
					}
				}
				if hit.Plan == &fp && os.Getenv("NSIM_MIN_SCHEDULE") != "" {
					// schedule minimisation: drop scheduling segments (context switches) one at a
					// time, from the end, while the same violation signature is still produced
					before := len(fp.Sched.Follow)
					budget := 500
					for j := len(fp.Sched.Follow) - 1; j >= 0 && budget > 0; j-- {
						if j >= len(fp.Sched.Follow) {
							continue
						}
						cand := fp
						cand.Sched.Follow = append(append([]Seg{}, fp.Sched.Follow[:j]...), fp.Sched.Follow[j+1:]...)
						budget--
						cres := RunPlan(t, sc, &cand, false)
						for _, cv := range cres.Violations {
							if cv.Property == rf.Property && cv.Sig == rf.Expect.Sig {
								fp.Sched.Follow = cand.Sched.Follow
								hit.Expect.TraceHash = cres.TraceHash
								break
							}
						}
					}
					hit.Note = fmt.Sprintf("schedule minimised from %d to %d scheduling segments", before, len(fp.Sched.Follow))
				}
				hb, _ := json.Marshal(hit)
				fmt.Printf("TRY-HIT %s\n", hb)
				return
			}
		}
	}
	fmt.Println("TRY-MISS")
}

// ---------------------------------------------------------------------------
// driver

type knownFinding struct {
	Property string `json:"property"`
	Sig      string `json:"sig"`
	Status   string `json:"status"` // known | fixed
	Commit   string `json:"commit,omitempty"`
	What     string `json:"what"`
	Replay   string `json:"replay,omitempty"`
}

type violRec struct {
	Scen   string
	I      int
	V      Violation
	Crash  bool
	Stderr string
}

type chunk struct {
	scen  string
	from  int
	count int
}

// crashOwners: stack frames that tie a crash to the subject of a property.
var crashOwners = map[string]*regexp.Regexp{
	"C10": regexp.MustCompile(`\(\*Nitro\)\.Visitor`),
	"C05": regexp.MustCompile(`\(\*Nitro\)\.(StoreToDisk|LoadFromDisk)`),
	"C11": regexp.MustCompile(`\(\*Nitro\)\.LoadFromDisk`),
	"C12": regexp.MustCompile(`\(\*Nitro\)\.(StoreToDisk|LoadFromDisk)`),
}

var crashFrameRe = regexp.MustCompile(`github.com/couchbase/nitro[^\s(]*\.([A-Za-z0-9_.()*]+)\(`)

func crashSig(stderr string) string {
	kind := "crash"
	switch {
	case strings.Contains(stderr, "unexpected fault address"), strings.Contains(stderr, "SIGSEGV"):
		kind = "fault"
	case strings.Contains(stderr, "panic:"):
		kind = "panic"
	case strings.Contains(stderr, "fatal error:"):
		kind = "fatal"
	}
	msg := ""
	for _, l := range strings.Split(stderr, "\n") {
		if strings.HasPrefix(l, "panic: ") {
			msg = panicClass(l)
			break
		}
	}
	frame := ""
	if m := crashFrameRe.FindStringSubmatch(stderr); m != nil {
		frame = m[1]
	}
	return strings.Trim(fmt.Sprintf("crash:%s:%s:%s", kind, msg, frame), ":")
}

func verifDir() string {
	if d := os.Getenv("VERIF_DIR"); d != "" {
		return d
	}
	return "/verif"
}

func runWorker(scen string, base uint64, from, count int, tier string, samples int, timeout time.Duration) (lines []string, stderr string, err error) {
	cmd := exec.Command(os.Args[0], "-test.run", "^TestWorker$", "-test.timeout", "0")
	// one OS thread per worker process: goroutine hand-offs stay on one thread (5x faster);
	// the determinism self-check re-executes samples at GOMAXPROCS 1 and 4
	cmd.Env = append(os.Environ(), "GOMAXPROCS=1", "NSIM_MODE=worker", "NSIM_SCEN="+scen, fmt.Sprintf("NSIM_BASE=%d", base),
		fmt.Sprintf("NSIM_FROM=%d", from), fmt.Sprintf("NSIM_COUNT=%d", count), "NSIM_TIER="+tier, fmt.Sprintf("NSIM_SAMPLES=%d", samples))
	var ob, eb bytes.Buffer
	cmd.Stdout = &ob
	cmd.Stderr = &eb
	if err = cmd.Start(); err != nil {
		return nil, "", err
	}
	done := make(chan error, 1)
	go func() { done <- cmd.Wait() }()
	select {
	case err = <-done:
	case <-time.After(timeout):
		cmd.Process.Kill()
		<-done
		err = fmt.Errorf("worker timeout after %v", timeout)
	}
	return strings.Split(ob.String(), "\n"), eb.String(), err
}

func TestDriver(t *testing.T) {
	prop := os.Getenv("NSIM_PROP")
	if prop == "" || os.Getenv("NSIM_MODE") != "driver" {
		t.Skip()
	}
	os.Exit(driverMain(prop))
}

func driverMain(prop string) int {
	start := time.Now()
	def := checkDefs[prop]
	if def == nil {
		fmt.Printf("no check defined for %s\n", prop)
		return 2
	}
	tier := os.Getenv("VERIF_TIER")
	if tier == "" {
		tier = os.Getenv("NSIM_TIER")
	}
	if tier != "thorough" {
		tier = "quick"
	}
	base := envU64("VERIF_SEED", 1)
	nproc := envInt("NSIM_PROCS", runtime.NumCPU())
	if nproc > 16 {
		nproc = 16
	}
	scale := 1.0
	if v := os.Getenv("NSIM_SCALE"); v != "" {
		fmt.Sscanf(v, "%g", &scale)
	}
	budgetS := envInt("VERIF_BUDGET_S", 0)
	if budgetS == 0 {
		if tier == "quick" {
			budgetS = 90
		} else {
			budgetS = 1500
		}
	}
	deadline := start.Add(time.Duration(budgetS) * time.Second)
	fmt.Printf("nsim driver: property=%s tier=%s VERIF_SEED=%d procs=%d\n", prop, tier, base, nproc)

	var chunks []chunk
	var perScen [][]chunk
	totalPlanned := 0
	for _, sb := range def.Scens {
		var chunks []chunk
		n := sb.Quick
		if tier == "thorough" {
			n = sb.Thorough
		}
		n = int(float64(n) * scale)
		if n < 1 {
			n = 1
		}
		totalPlanned += n
		csize := n / (nproc * 4)
		if csize < 1 {
			csize = 1
		}
		if csize > 2000 {
			csize = 2000
		}
		for f := 0; f < n; f += csize {
			c := csize
			if f+c > n {
				c = n - f
			}
			chunks = append(chunks, chunk{sb.Scen, f, c})
		}
		perScen = append(perScen, chunks)
	}
	// interleave the scenarios so that a wall-clock budget cuts all of them proportionally
	for more := true; more; {
		more = false
		for si := range perScen {
			if len(perScen[si]) > 0 {
				chunks = append(chunks, perScen[si][0])
				perScen[si] = perScen[si][1:]
				more = true
			}
		}
	}

	var mu sync.Mutex
	evals := 0
	hashes := map[string]bool{}
	ntHashes := map[string]bool{}
	verdicts := map[string]int{}
	incon := map[string]int{}
	agg := workerAgg{Probes: map[string]int{}, Faults: map[string]int{}, Cases: map[string]int{}, Strat: map[string]int{}}
	pairs := map[int]bool{}
	var samples []*RunResult
	var viols []violRec
	var infra []string
	firstHash := map[string]string{} // "scen/i" -> hash, for the determinism self-check
	skipped := 0

	work := make(chan chunk)
	var wg sync.WaitGroup
	processLines := func(c chunk, lines []string) (lastRun int, done int) {
		lastRun = -1
		for _, l := range lines {
			switch {
			case strings.HasPrefix(l, "RUN "):
				fmt.Sscanf(l, "RUN %d", &lastRun)
			case strings.HasPrefix(l, "RES "):
				var wr workerRes
				if json.Unmarshal([]byte(l[4:]), &wr) != nil {
					continue
				}
				done++
				mu.Lock()
				evals++
				hashes[c.scen+wr.Hash] = true
				if wr.Nontrivial {
					ntHashes[c.scen+wr.Hash] = true
				}
				verdicts[wr.Verdict]++
				if wr.Incon != "" {
					incon[wr.Incon]++
				}
				if wr.I%50 == 0 {
					firstHash[fmt.Sprintf("%s/%d", c.scen, wr.I)] = wr.Hash
				}
				for _, v := range wr.Viol {
					viols = append(viols, violRec{Scen: c.scen, I: wr.I, V: v})
				}
				if wr.Sample != nil && len(samples) < 3 {
					samples = append(samples, wr.Sample)
				}
				mu.Unlock()
			case strings.HasPrefix(l, "AGG "):
				var a workerAgg
				if json.Unmarshal([]byte(l[4:]), &a) != nil {
					continue
				}
				mu.Lock()
				for k, v := range a.Probes {
					agg.Probes[k] += v
				}
				for k, v := range a.Faults {
					agg.Faults[k] += v
				}
				for k, v := range a.Cases {
					agg.Cases[k] += v
				}
				for k, v := range a.Strat {
					agg.Strat[k] += v
				}
				for _, p := range a.SitePairs {
					pairs[p] = true
				}
				agg.SimTimeNs += a.SimTimeNs
				agg.Steps += a.Steps
				agg.Picks += a.Picks
				agg.Preempts += a.Preempts
				mu.Unlock()
			}
		}
		return
	}
	for w := 0; w < nproc; w++ {
		wg.Add(1)
		go func() {
			defer wg.Done()
			for c := range work {
				cur := c
				for cur.count > 0 {
					if time.Now().After(deadline) {
						mu.Lock()
						skipped += cur.count
						mu.Unlock()
						break
					}
					ns := 0
					if cur.from == 0 {
						ns = 2
					}
					lines, stderr, err := runWorker(cur.scen, base, cur.from, cur.count, tier, ns, 30*time.Minute)
					lastRun, done := processLines(cur, lines)
					if err == nil {
						break
					}
					// the worker died: attribute to the last announced run
					if lastRun < 0 {
						mu.Lock()
						infra = append(infra, fmt.Sprintf("worker for %s[%d..] failed before any run: %v\n%s", cur.scen, cur.from, err, tail(stderr, 30)))
						mu.Unlock()
						break
					}
					_ = done
					if strings.Contains(stderr, "WATCHDOG") {
						mu.Lock()
						infra = append(infra, fmt.Sprintf("watchdog: %s run %d did not finish within the wall-clock limit", cur.scen, lastRun))
						mu.Unlock()
						next := lastRun + 1
						cur = chunk{cur.scen, next, cur.from + cur.count - next}
						continue
					}
					confirmed := 0
					var st2 string
					for k := 0; k < 2; k++ {
						_, st, e2 := runWorker(cur.scen, base, lastRun, 1, tier, 0, 10*time.Minute)
						if e2 != nil {
							confirmed++
							st2 = st
						}
					}
					mu.Lock()
					if confirmed == 2 {
						sig := crashSig(st2)
						// a memory fault or the barrier's own reclamation panic in an internal
						// goroutine is a memory-safety violation (C04); other crashes belong to
						// the property under check
						cprop := def.Prop
						if strings.HasPrefix(sig, "crash:fault") || strings.Contains(sig, "Unsafe memory reclamation") {
							cprop = "C04"
						}
						viols = append(viols, violRec{Scen: cur.scen, I: lastRun, Crash: true, Stderr: tail(st2, 60),
							V: Violation{Property: cprop, Sig: sig, Detail: firstLines(st2, 3)}})
						// a crash inside the operation that is the subject of the property under
						// check also breaks that property (the operation never delivers)
						if re := crashOwners[def.Prop]; cprop != def.Prop && re != nil && re.MatchString(st2) {
							viols = append(viols, violRec{Scen: cur.scen, I: lastRun, Crash: true, Stderr: tail(st2, 60),
								V: Violation{Property: def.Prop, Sig: sig, Detail: firstLines(st2, 3)}})
						}
						evals++
					} else {
						infra = append(infra, fmt.Sprintf("worker death at %s run %d did not reproduce (%d/2): %v\n%s", cur.scen, lastRun, confirmed, err, tail(stderr, 30)))
					}
					mu.Unlock()
					next := lastRun + 1
					cur = chunk{cur.scen, next, cur.from + cur.count - next}
				}
			}
		}()
	}
	for _, c := range chunks {
		work <- c
	}
	close(work)
	wg.Wait()

	// determinism self-check: re-execute a sample in a second process
	detChecked, detBad := 0, 0
	{
		keys := make([]string, 0, len(firstHash))
		for k := range firstHash {
			keys = append(keys, k)
		}
		sort.Strings(keys)
		maxk := 40
		if tier == "thorough" {
			maxk = 200
		}
		if len(keys) > maxk {
			step := len(keys) / maxk
			var kk []string
			for i := 0; i < len(keys); i += step {
				kk = append(kk, keys[i])
			}
			keys = kk
		}
		var dwg sync.WaitGroup
		sem := make(chan struct{}, nproc)
		for _, k := range keys {
			k := k
			dwg.Add(1)
			sem <- struct{}{}
			go func() {
				defer dwg.Done()
				defer func() { <-sem }()
				var scen string
				var i int
				idx := strings.LastIndex(k, "/")
				scen = k[:idx]
				fmt.Sscanf(k[idx+1:], "%d", &i)
				cmdEnvProcs := []string{"GOMAXPROCS=4", "GOMAXPROCS=16"}[(i/50)%2]
				os.Setenv("NSIM_DUMMY", "")
				cmd := exec.Command(os.Args[0], "-test.run", "^TestWorker$", "-test.timeout", "0")
				cmd.Env = append(os.Environ(), cmdEnvProcs, "NSIM_MODE=worker", "NSIM_SCEN="+scen, fmt.Sprintf("NSIM_BASE=%d", base),
					fmt.Sprintf("NSIM_FROM=%d", i), "NSIM_COUNT=1", "NSIM_TIER="+tier, "NSIM_SAMPLES=0")
				out, err := cmd.Output()
				if err != nil {
					return // crashes are handled above
				}
				for _, l := range strings.Split(string(out), "\n") {
					if strings.HasPrefix(l, "RES ") {
						var wr workerRes
						if json.Unmarshal([]byte(l[4:]), &wr) == nil {
							mu.Lock()
							detChecked++
							if wr.Hash != firstHash[k] {
								detBad++
								infra = append(infra, fmt.Sprintf("determinism self-check failed: %s first=%s second=%s", k, firstHash[k], wr.Hash))
							}
							mu.Unlock()
						}
					}
				}
			}()
		}
		dwg.Wait()
	}

	// group violations of this property by signature; minimise and report
	known := loadKnown()
	bySig := map[string][]violRec{}
	other := map[string]int{}
	for _, v := range viols {
		if v.V.Property != prop {
			other[v.V.Property+"/"+v.V.Sig]++
			continue
		}
		bySig[v.V.Sig] = append(bySig[v.V.Sig], v)
	}
	sigs := make([]string, 0, len(bySig))
	for s := range bySig {
		sigs = append(sigs, s)
	}
	sort.Strings(sigs)
	exit := 0
	nviol := 0
	os.MkdirAll(filepath.Join(verifDir(), "replays"), 0755)
	var reported []map[string]interface{}
	for _, sig := range sigs {
		recs := bySig[sig]
		sort.Slice(recs, func(i, j int) bool {
			if recs[i].Scen != recs[j].Scen {
				return recs[i].Scen < recs[j].Scen
			}
			return recs[i].I < recs[j].I
		})
		first := recs[0]
		kf := findKnown(known, prop, sig)
		path := filepath.Join(verifDir(), "replays", fmt.Sprintf("%s-%s.json", prop, sanitize(sig)))
		rf := buildReplay(first, prop, base, tier)
		if (kf == nil || kf.Status != "known") && nviol < 3 {
			// the first three signatures are minimised; further ones keep the generated plan
			rf = minimise(rf, first.Crash, tier)
		}
		b, _ := json.MarshalIndent(rf, "", " ")
		os.WriteFile(path, b, 0644)
		confirmed := confirmReplay(path, rf)
		rep := map[string]interface{}{"sig": sig, "runs": len(recs), "first_scenario": first.Scen, "first_run_index": first.I,
			"detail": first.V.Detail, "replay": path, "replay_confirmed": confirmed, "minimised_ops": rf.Plan.NumOps(), "minimised_tasks": len(rf.Plan.Tasks)}
		if kf != nil && kf.Status == "known" {
			rep["known_finding"] = true
			reported = append(reported, rep)
			continue
		}
		reported = append(reported, rep)
		nviol++
		exit = 1
		idx := ""
		for i, r := range recs {
			if i >= 12 {
				break
			}
			idx += fmt.Sprintf(" %s#%d", r.Scen, r.I)
		}
		fmt.Printf("violation: property=%s sig=%s runs=%d first=%s#%d\n  %s\n  runs:%s\n", prop, sig, len(recs), first.Scen, first.I, first.V.Detail, idx)
		if first.Crash {
			fmt.Printf("  crash output:\n%s\n", indent(first.Stderr))
		}
		fmt.Printf("VIOLATION property=%s replay=%s\n", prop, path)
	}
	for _, kf := range known {
		if kf.Property == prop && kf.Status == "known" {
			seen := ""
			if n := len(bySig[kf.Sig]); n > 0 {
				seen = fmt.Sprintf(" (reproduced in %d runs of this check)", n)
			}
			fmt.Printf("KNOWN-FINDING: property=%s %s [sig=%s]%s\n", prop, kf.What, kf.Sig, seen)
		}
	}
	if len(infra) > 0 {
		for _, m := range infra {
			fmt.Println("INFRA:", m)
		}
		if exit == 0 {
			exit = 2
		}
	}

	// evidence
	wall := time.Since(start).Seconds()
	evalsOut, distinctOut := evals, len(ntHashes)
	if agg.Cases["evaluations"] > 0 {
		// enumeration scenarios count every injected fault / damage as one evaluation
		evalsOut, distinctOut = agg.Cases["evaluations"], agg.Cases["distinct"]
	}
	cov := map[string]interface{}{
		"evaluations":         evalsOut,
		"distinct_nontrivial": distinctOut,
		"simulated_runs":      evals,
		"distinct_nontrivial_run_traces": len(ntHashes),
		"rule":                def.Rule,
		"samples":             samples,
		"distinct_traces":     len(hashes),
		"seeds":               map[string]interface{}{"base": base, "derivation": "runSeed = mix(VERIF_SEED, runIndex) per scenario", "planned_runs": totalPlanned, "skipped_for_wall_budget": skipped},
		"runs_per_hour":       int(float64(evals) / wall * 3600),
		"simulated_time_s":    float64(agg.SimTimeNs) / 1e9,
		"yield_points_total":  agg.Steps,
		"scheduling_decisions_total": agg.Picks,
		"preemptions_inside_operations_total": agg.Preempts,
		"site_pair_coverage":  len(pairs),
		"faults_fired":        agg.Faults,
		"probes":              agg.Probes,
		"strategies":          agg.Strat,
		"verdicts":            verdicts,
		"inconclusive":        incon,
		"non_simulated_cases": agg.Cases,
		"components":          map[string]interface{}{"real": def.Real, "stubbed": def.Stubbed},
		"determinism_selfcheck": map[string]int{"reexecuted_in_second_process": detChecked, "mismatches": detBad},
		"violations_reported": reported,
		"violations_of_other_properties_seen": other,
		"scenarios":           def.Scens,
	}
	if len(samples) == 0 {
		cov["samples"] = []string{"no sample captured"}
	}
	if tier == "thorough" {
		for _, p := range def.WarnProbe {
			if agg.Probes[p] == 0 {
				fmt.Printf("WARNING: reach probe %q stayed at 0 in the thorough tier\n", p)
			}
		}
	}
	ev := map[string]interface{}{
		"property_id": prop,
		"tier":        tier,
		"seed":        base,
		"level":       def.Level,
		"coverage":    cov,
		"assumptions": def.Assume,
		"wall_s":      wall,
		"violations":  nviol,
	}
	os.MkdirAll(filepath.Join(verifDir(), "evidence"), 0755)
	eb, _ := json.MarshalIndent(ev, "", " ")
	if err := os.WriteFile(filepath.Join(verifDir(), "evidence", prop+".json"), eb, 0644); err != nil {
		fmt.Println("INFRA: cannot write evidence:", err)
		if exit == 0 {
			exit = 2
		}
	}
	fmt.Printf("nsim driver: %s %s: %d runs (%d distinct nontrivial traces), %d violation signature(s), %d known, wall %.1fs, exit %d\n",
		prop, tier, evals, len(ntHashes), nviol, len(reported)-nviol, wall, exit)
	return exit
}

func tail(s string, n int) string {
	l := strings.Split(strings.TrimRight(s, "\n"), "\n")
	if len(l) > n {
		l = l[len(l)-n:]
	}
	return strings.Join(l, "\n")
}

func firstLines(s string, n int) string {
	l := strings.Split(strings.TrimSpace(s), "\n")
	if len(l) > n {
		l = l[:n]
	}
	return strings.Join(l, " | ")
}

func indent(s string) string { return "    " + strings.ReplaceAll(s, "\n", "\n    ") }

func sanitize(s string) string {
	var b strings.Builder
	for _, c := range s {
		if (c >= 'a' && c <= 'z') || (c >= 'A' && c <= 'Z') || (c >= '0' && c <= '9') || c == '-' || c == '_' || c == '.' {
			b.WriteRune(c)
		} else {
			b.WriteRune('_')
		}
	}
	out := b.String()
	if len(out) > 80 {
		out = out[:80]
	}
	return out
}

func loadKnown() []knownFinding {
	var kf struct {
		Findings []knownFinding `json:"findings"`
	}
	b, err := os.ReadFile(filepath.Join(verifDir(), "known_findings.json"))
	if err != nil {
		return nil
	}
	json.Unmarshal(b, &kf)
	return kf.Findings
}

func findKnown(k []knownFinding, prop, sig string) *knownFinding {
	for i := range k {
		if k[i].Property == prop && k[i].Sig == sig {
			return &k[i]
		}
	}
	return nil
}

func buildReplay(v violRec, prop string, base uint64, tier string) *replayFile {
	sc := scenarios[v.Scen]
	seed := RunSeed(base, uint64(v.I))
	plan := sc.Gen(seed, tier)
	for k, x := range v.V.Hint {
		plan.Knobs[k] = x
	}
	return &replayFile{Property: prop, Scenario: v.Scen, Seed: seed, Plan: plan,
		Expect: expectT{Sig: v.V.Sig, Crash: v.Crash, Detail: v.V.Detail},
		Note:   fmt.Sprintf("VERIF_SEED=%d run index %d of scenario %s (tier %s)", base, v.I, v.Scen, tier)}
}

// tryPlan runs a candidate in a child process; returns the hit (with the
// schedule pinned) or nil.
func tryPlan(rf *replayFile, tries int, crash bool) *replayFile {
	f, err := os.CreateTemp("", "nsim-try-*.json")
	if err != nil {
		return nil
	}
	defer os.Remove(f.Name())
	b, _ := json.Marshal(rf)
	f.Write(b)
	f.Close()
	cmd := exec.Command(os.Args[0], "-test.run", "^TestTry$", "-test.timeout", "0")
	cmd.Env = append(os.Environ(), "NSIM_TRY="+f.Name(), fmt.Sprintf("NSIM_TRIES=%d", tries))
	var ob, eb bytes.Buffer
	cmd.Stdout = &ob
	cmd.Stderr = &eb
	done := make(chan error, 1)
	if cmd.Start() != nil {
		return nil
	}
	go func() { done <- cmd.Wait() }()
	var werr error
	select {
	case werr = <-done:
	case <-time.After(5 * time.Minute):
		cmd.Process.Kill()
		<-done
		return nil
	}
	if crash {
		if werr != nil && crashSig(eb.String()) == rf.Expect.Sig {
			// a crash is pinned by plan + schedule seed of the try that was running
			last := -1
			for _, l := range strings.Split(ob.String(), "\n") {
				if strings.HasPrefix(l, "TRY-RUN ") {
					fmt.Sscanf(l, "TRY-RUN %d", &last)
				}
			}
			if last == 0 {
				return rf
			}
		}
		return nil
	}
	for _, l := range strings.Split(ob.String(), "\n") {
		if strings.HasPrefix(l, "TRY-HIT ") {
			var hit replayFile
			if json.Unmarshal([]byte(l[8:]), &hit) == nil {
				hit.Note = rf.Note
				return &hit
			}
		}
	}
	return nil
}

func clonePlan(p *Plan) *Plan {
	b, _ := json.Marshal(p)
	var q Plan
	json.Unmarshal(b, &q)
	return &q
}

// minimise shrinks the plan (tasks, then operations, then knobs) while the
// same violation signature is found again by the original schedule or by a
// bounded schedule re-search.
func minimise(rf *replayFile, crash bool, tier string) *replayFile {
	// every candidate is re-searched with up to `tries` derived schedules, bounded by a
	// total of 3M yield points per candidate (cheap scenarios get hundreds of schedules)
	budget := 80
	tries := 400
	wall := 60 * time.Second
	if tier == "thorough" {
		budget = 300
		wall = 5 * time.Minute
	}
	deadline := time.Now().Add(wall)
	if crash {
		tries = 0
		budget = 40
	}
	best := tryPlan(rf, 0, crash)
	if best == nil {
		// the original must reproduce; keep it as it is (replay confirmation will tell)
		return rf
	}
	attempt := func(cand *Plan) bool {
		if budget <= 0 || time.Now().After(deadline) {
			budget = 0
			return false
		}
		budget--
		c := *best
		c.Plan = cand
		if cand.Sched.Strategy == "follow" {
			// re-search from the generating strategy, the pinned list will not fit a smaller plan
			cand.Sched = rf.Plan.Sched
		}
		if hit := tryPlan(&c, tries, crash); hit != nil {
			best = hit
			return true
		}
		return false
	}
	// drop whole tasks
	for i := len(best.Plan.Tasks) - 1; i >= 0 && len(best.Plan.Tasks) > 1; i-- {
		if i >= len(best.Plan.Tasks) {
			continue
		}
		cand := clonePlan(best.Plan)
		cand.Tasks = append(cand.Tasks[:i], cand.Tasks[i+1:]...)
		attempt(cand)
	}
	// drop operations: halves first, then single operations
	for ti := 0; ti < len(best.Plan.Tasks); ti++ {
		for size := len(best.Plan.Tasks[ti].Ops) / 2; size >= 1; size /= 2 {
			for at := 0; at+size <= len(best.Plan.Tasks[ti].Ops); {
				cand := clonePlan(best.Plan)
				ops := cand.Tasks[ti].Ops
				cand.Tasks[ti].Ops = append(append([]Op{}, ops[:at]...), ops[at+size:]...)
				if !attempt(cand) {
					at += size
				}
				if budget <= 0 {
					break
				}
			}
		}
	}
	note := rf.Note + fmt.Sprintf("; minimised from %d tasks / %d operations", len(rf.Plan.Tasks), rf.Plan.NumOps())
	if !crash && best.Plan.Sched.Strategy == "follow" {
		// finally shrink the pinned decision list itself
		c := *best
		if hit := tryFollow(&c); hit != nil && hit.Plan.Sched.Strategy == "follow" {
			note += "; " + hit.Note
			best = hit
		}
	}
	best.Note = note
	return best
}

func confirmReplay(path string, rf *replayFile) bool {
	cmd := exec.Command(os.Args[0], "-test.run", "^TestReplay$", "-test.timeout", "0")
	cmd.Env = append(os.Environ(), "NSIM_REPLAY="+path)
	var ob, eb bytes.Buffer
	cmd.Stdout = &ob
	cmd.Stderr = &eb
	err := cmd.Run()
	if rf.Expect.Crash {
		return err != nil && crashSig(eb.String()) == rf.Expect.Sig
	}
	return strings.Contains(ob.String(), "REPLAY-RESULT reproduced trace_hash=")
}

// ---------------------------------------------------------------------------
// determinism self-test (DESIGN 8.1): every scenario, the same run indices
// executed in several fresh processes at GOMAXPROCS 1, 4 and 16, all started
// together so that they run under load; the complete result lines (trace
// hash, verdict, violations) must be identical.

func TestSelftest(t *testing.T) {
	if os.Getenv("NSIM_MODE") != "selftest" {
		t.Skip()
	}
	n := envInt("NSIM_SELFTEST_RUNS", 150)
	base := envU64("VERIF_SEED", 1)
	type job struct {
		scen  string
		procs string
		copyN int
		out   string
		err   error
	}
	var jobs []*job
	for _, sc := range scenarioNames() {
		cnt := n
		if sc == "damage" || sc == "wfault" || sc == "crashimg" {
			cnt = n / 15
			if cnt < 3 {
				cnt = 3
			}
		}
		for _, gp := range []string{"1", "4", "16"} {
			for c := 0; c < 2; c++ {
				jobs = append(jobs, &job{scen: sc, procs: gp, copyN: cnt})
			}
		}
	}
	var wg sync.WaitGroup
	sem := make(chan struct{}, 32)
	for _, j := range jobs {
		j := j
		wg.Add(1)
		sem <- struct{}{}
		go func() {
			defer wg.Done()
			defer func() { <-sem }()
			cmd := exec.Command(os.Args[0], "-test.run", "^TestWorker$", "-test.timeout", "0")
			cmd.Env = append(os.Environ(), "GOMAXPROCS="+j.procs, "NSIM_MODE=worker", "NSIM_SCEN="+j.scen, fmt.Sprintf("NSIM_BASE=%d", base),
				"NSIM_FROM=0", fmt.Sprintf("NSIM_COUNT=%d", j.copyN), "NSIM_TIER=quick", "NSIM_SAMPLES=0")
			out, err := cmd.Output()
			var keep []string
			for _, l := range strings.Split(string(out), "\n") {
				if strings.HasPrefix(l, "RES ") {
					keep = append(keep, l)
				}
			}
			j.out = strings.Join(keep, "\n")
			j.err = err
		}()
	}
	wg.Wait()
	ref := map[string]*job{}
	bad := 0
	total := 0
	for _, j := range jobs {
		if j.err != nil {
			fmt.Printf("SELFTEST: worker for %s (GOMAXPROCS=%s) failed: %v\n", j.scen, j.procs, j.err)
			bad++
			continue
		}
		total += j.copyN
		r := ref[j.scen]
		if r == nil {
			ref[j.scen] = j
			continue
		}
		if r.out != j.out {
			bad++
			a, b := strings.Split(r.out, "\n"), strings.Split(j.out, "\n")
			for i := 0; i < len(a) && i < len(b); i++ {
				if a[i] != b[i] {
					fmt.Printf("SELFTEST: %s diverges (GOMAXPROCS=%s vs %s) at line %d:\n  %s\n  %s\n", j.scen, r.procs, j.procs, i, cut(a[i], 300), cut(b[i], 300))
					break
				}
			}
		}
	}
	fmt.Printf("selftest: %d scenarios x 6 processes (GOMAXPROCS 1,4,16 x 2), %d run executions compared, %d mismatching processes\n", len(ref), total, bad)
	if bad > 0 {
		os.Exit(2)
	}
}

func cut(s string, n int) string {
	if len(s) > n {
		return s[:n]
	}
	return s
}

// tryFollow re-runs a pinned (follow) plan in a child process with schedule
// minimisation enabled.
func tryFollow(rf *replayFile) *replayFile {
	f, err := os.CreateTemp("", "nsim-try-*.json")
	if err != nil {
		return nil
	}
	defer os.Remove(f.Name())
	b, _ := json.Marshal(rf)
	f.Write(b)
	f.Close()
	cmd := exec.Command(os.Args[0], "-test.run", "^TestTry$", "-test.timeout", "0")
	cmd.Env = append(os.Environ(), "NSIM_TRY="+f.Name(), "NSIM_TRIES=0", "NSIM_MIN_SCHEDULE=1")
	out, err := cmd.Output()
	if err != nil {
		return nil
	}
	for _, l := range strings.Split(string(out), "\n") {
		if strings.HasPrefix(l, "TRY-HIT ") {
			var hit replayFile
			if json.Unmarshal([]byte(l[8:]), &hit) == nil {
				return &hit
			}
		}
	}
	return nil
}
