package nsim

import (
	"fmt"
	"runtime"
	"sort"
	"unsafe"

	"github.com/couchbase/nitro/skiplist"
)

// Scenario "sliter": skiplist iterators running while owner-partitioned
// mutators insert and delete around a set of stable items (C15).

func init() {
	register(&Scenario{Name: "sliter", Props: []string{"C15", "C04"}, Gen: genSLIter, Run: runSLIter})
}

func genSLIter(seed uint64, tier string) *Plan {
	r := NewRng(seed, purposePlan)
	p := &Plan{Scenario: "sliter", Seed: seed, Knobs: map[string]int{}}
	p.Knobs["mm"] = r.Intn(2)
	p.Knobs["protect"] = 0
	nstable := r.Range(2, 6)
	p.Knobs["reuse_iter"] = r.Intn(2) // an iterator task re-positions one iterator object for all its scans
	p.Knobs["nstable"] = nstable // stable keys 10,20,...; two churn keys in every gap: 3,6,13,16,23,26,...
	nchurn := 2 * (nstable + 1)
	nmut := r.Range(1, 3)
	p.Knobs["prefill"] = r.Intn(1 << uint(nchurn))
	if r.Bool(0.3) {
		p.Knobs["prefill"] = 1<<uint(nchurn) - 1 // everything present: deletes dominate at first
	}
	for m := 0; m < nmut; m++ {
		tp := TaskPlan{Name: fmt.Sprintf("m%d", m), Phase: 0}
		n := r.Range(2, 12)
		for j := 0; j < n; j++ {
			// churn key c is owned by mutator c mod nmut
			c := r.Intn(nchurn)
			for try := 0; try < 10 && c%nmut != m; try++ {
				c = r.Intn(nchurn)
			}
			if c%nmut != m {
				continue
			}
			switch x := r.Intn(10); {
			case x < 4:
				tp.Ops = append(tp.Ops, Op{K: "ins", A: []int{c, r.Intn(4)}})
			case x < 7:
				tp.Ops = append(tp.Ops, Op{K: "del", A: []int{c}})
			default:
				// delete the churn node an iterator stands on (or its predecessor), if owned
				tp.Ops = append(tp.Ops, Op{K: "delcur", A: []int{r.Intn(2), r.Intn(2)}})
			}
		}
		p.Tasks = append(p.Tasks, tp)
	}
	nit := r.Range(1, 2)
	for i := 0; i < nit; i++ {
		tp := TaskPlan{Name: fmt.Sprintf("i%d", i), Phase: 0}
		n := r.Range(1, 4)
		for j := 0; j < n; j++ {
			// one scan: start (0 = SeekFirst, else Seek(x)), steps (0 = to the end), refresh interval, explicit refresh period, pause period
			start := 0
			if r.Bool(0.5) {
				start = r.Range(1, 10*nstable+9)
			}
			steps := 0
			if r.Bool(0.4) {
				steps = r.Range(1, 6)
			}
			// a scan that stops early may leave the iterator right after an explicit Refresh
			// (the next scan of a re-used iterator re-positions it from that state)
			tp.Ops = append(tp.Ops, Op{K: "scan", A: []int{start, steps, []int{0, 0, 1, 2, 3}[r.Intn(5)], []int{0, 0, 1, 2, 3}[r.Intn(5)], []int{0, 0, 0, 2, 3}[r.Intn(5)], r.Intn(2)}})
		}
		p.Tasks = append(p.Tasks, tp)
	}
	p.Sched = GenSched(r, seed, 60*p.NumOps()+200, slStallSites)
	return p
}

type churnEv struct {
	key       int
	ins       bool
	ok        bool
	call, ret int64
}

type iterObs struct {
	key       int
	call, ret int64 // of the positioning call (Seek/Next) that produced it
}

type scanRec struct {
	task       string
	start      int // 0 = SeekFirst
	call, end  int64
	obs        []iterObs
	toEnd      bool
	ended      bool // Valid() became false
	refreshInt int
}

func runSLIter(env *Env) {
	s := env.S
	plan := env.Plan
	mm := plan.Knob("mm", 0) == 1
	var ga *GuardAlloc
	var items []*intItem
	defer func() { runtime.KeepAlive(&items) }()
	newItem := func(k int) unsafe.Pointer {
		it := &intItem{key: k}
		items = append(items, it)
		return unsafe.Pointer(it)
	}
	cmp := func(a, b unsafe.Pointer) int {
		s.Yield(SiteHarnessCmp)
		return intOf(a) - intOf(b)
	}
	cfg := skiplist.DefaultConfig()
	cfg.ItemSize = func(unsafe.Pointer) int { return 8 }
	var sl *skiplist.Skiplist
	if mm {
		ga = NewGuardAlloc(env, false)
		defer ga.Release()
		env.Alloc = ga
		cfg.UseMemoryMgmt = true
		cfg.Malloc = ga.Malloc
		cfg.Free = ga.Free
		cfg.BarrierDestructor = func(ref unsafe.Pointer) {
			s.Yield(SiteHarnessCallback)
			sl.FreeNode((*skiplist.Node)(ref), &sl.Stats)
		}
	}
	sl = skiplist.NewWithConfig(cfg)
	barrier := sl.GetAccesBarrier()
	nstable := plan.Knob("nstable", 2)
	stable := map[int]bool{}
	setup := sl.MakeBuf()
	for i := 1; i <= nstable; i++ {
		sl.Insert2(newItem(10*i), cmpIntRaw, nil, setup, levelRand(i%3), &sl.Stats)
		stable[10*i] = true
	}
	churnKey := func(c int) int { return 10*(c/2) + 3 + 3*(c%2) }
	churnIndex := func(k int) int { return 2*(k/10) + ((k%10)-3)/3 }
	var evs []churnEv
	for c := 0; c < 2*(nstable+1); c++ {
		if plan.Knob("prefill", 0)&(1<<uint(c)) != 0 {
			sl.Insert2(newItem(churnKey(c)), cmpIntRaw, nil, setup, levelRand(c%2), &sl.Stats)
			evs = append(evs, churnEv{key: churnKey(c), ins: true, ok: true, call: 0, ret: 0})
		}
	}
	nmut := 0
	for _, tp := range plan.Tasks {
		if tp.Name[0] == 'm' {
			nmut++
		}
	}
	// what the iterators last returned (mutators aim at it)
	lastKey := map[string]int{}
	prevKey := map[string]int{}
	var scans []*scanRec

	doDel := func(k int, buf *skiplist.ActionBuffer) bool {
		tok := barrier.Acquire()
		_, curr, found := sl.Lookup(newItem(k), cmp, buf, &sl.Stats)
		ok := false
		if found {
			ok = sl.DeleteNode2(curr, cmp, buf, &sl.Stats)
			var isLive func(unsafe.Pointer) bool
			if ga != nil {
				isLive = ga.IsLive
			}
			if ok && linkedAtLevel0(sl, curr, isLive) {
				env.Violate("C15", "deleted-node-still-linked-after-delete-returned", "DeleteNode2(%d) returned true but its node is still linked at level 0: a scan starting now returns the deleted item", k)
			}
		}
		barrier.Release(tok)
		if ok && mm {
			barrier.FlushSession(unsafe.Pointer(curr))
		}
		return ok
	}
	for mi, tp := range plan.Tasks {
		if tp.Name[0] != 'm' {
			continue
		}
		mi, tp := mi, tp
		s.Go(tp.Name, func() {
			buf := sl.MakeBuf()
			for _, op := range tp.Ops {
				s.Yield(SiteHarnessOp)
				switch op.K {
				case "ins":
					k := churnKey(op.Arg(0))
					s.BeginOp()
					call := s.Stamp()
					_, ok := sl.Insert2(newItem(k), cmp, nil, buf, levelRand(op.Arg(1)), &sl.Stats)
					evs = append(evs, churnEv{key: k, ins: true, ok: ok, call: call, ret: s.Stamp()})
					s.EndOp()
					env.Logf("%s ins(%d) -> %v [%d..%d]", tp.Name, k, ok, call, s.Seq())
				case "del", "delcur":
					k := churnKey(op.Arg(0))
					if op.K == "delcur" {
						name := fmt.Sprintf("i%d", op.Arg(0))
						k = lastKey[name]
						if op.Arg(1) == 1 {
							k = prevKey[name]
						}
						if k == 0 || stable[k] || churnIndex(k)%nmut != mi%nmut {
							continue
						}
					}
					s.BeginOp()
					call := s.Stamp()
					ok := doDel(k, buf)
					evs = append(evs, churnEv{key: k, ins: false, ok: ok, call: call, ret: s.Stamp()})
					s.EndOp()
					env.Logf("%s del(%d) -> %v [%d..%d]", tp.Name, k, ok, call, s.Seq())
				}
			}
		})
	}
	for _, tp := range plan.Tasks {
		if tp.Name[0] != 'i' {
			continue
		}
		tp := tp
		s.Go(tp.Name, func() {
			reuse := plan.Knob("reuse_iter", 0) == 1
			var it *skiplist.Iterator
			for _, op := range tp.Ops {
				s.Yield(SiteHarnessOp)
				start, steps, rint, rexp, pause := op.Arg(0), op.Arg(1), op.Arg(2), op.Arg(3), op.Arg(4)
				sc := &scanRec{task: tp.Name, start: start, toEnd: steps == 0, refreshInt: rint}
				scans = append(scans, sc)
				if it == nil || !reuse {
					it = sl.NewIterator(cmp, sl.MakeBuf())
				}
				if rint > 0 {
					it.SetRefreshInterval(rint)
				}
				s.BeginOp()
				sc.call = s.Stamp()
				call := sc.call
				if start == 0 {
					it.SeekFirst()
				} else {
					it.Seek(newItem(start))
				}
				n := 0
				for it.Valid() {
					k := intOf(it.Get())
					ret := s.Stamp()
					sc.obs = append(sc.obs, iterObs{key: k, call: call, ret: ret})
					prevKey[tp.Name] = lastKey[tp.Name]
					lastKey[tp.Name] = k
					n++
					if len(sc.obs) > 10000 {
						env.Violate("C15", "scan-does-not-terminate", "%s: scan delivered more than 10000 items", tp.Name)
						break
					}
					if steps > 0 && n >= steps {
						if op.Arg(5) == 1 {
							s.Yield(SiteHarnessOp)
							it.Refresh()
						}
						break
					}
					s.Yield(SiteHarnessOp)
					if rexp > 0 && n%rexp == 0 {
						it.Refresh()
					}
					if pause > 0 && n%pause == 0 && !mm {
						// a paused iterator holds no accessor token: only meaningful with Go-managed memory
						it.Pause()
						s.ForceYield(SiteHarnessOp)
						it.Resume()
					}
					call = s.Stamp()
					it.Next()
				}
				if !it.Valid() {
					sc.ended = true
				}
				sc.end = s.Stamp()
				s.EndOp()
				if !reuse {
					it.Close()
				}
				var ks []string
				for _, o := range sc.obs {
					ks = append(ks, fmt.Sprintf("%d@%d..%d", o.key, o.call, o.ret))
				}
				env.Logf("%s scan(start=%d steps=%d rint=%d rexp=%d pause=%d) [%d..%d] -> %v", tp.Name, start, steps, rint, rexp, pause, sc.call, sc.end, ks)
			}
			if reuse && it != nil {
				it.Close()
			}
		})
	}
	if !env.Finish(s.Run(), "") {
		return
	}
	// ---- oracle over the recorded history (every overlap is resolved in favour of the code under test)
	byKey := map[int][]churnEv{}
	for _, e := range evs {
		if e.ok {
			byKey[e.key] = append(byKey[e.key], e)
		}
	}
	// possibly-present windows [ins.call, next successful del.ret] and definitely-present windows [ins.ret, next del.call]
	type win struct{ from, to int64 }
	const inf = int64(1) << 60
	possibly := map[int][]win{}
	definitely := map[int][]win{}
	for k, es := range byKey {
		sort.Slice(es, func(i, j int) bool { return es[i].call < es[j].call })
		for i, e := range es {
			if !e.ins {
				continue
			}
			p, d := win{e.call, inf}, win{e.ret, inf}
			for _, f := range es[i+1:] {
				if !f.ins {
					p.to, d.to = f.ret, f.call
					break
				}
			}
			possibly[k] = append(possibly[k], p)
			definitely[k] = append(definitely[k], d)
		}
	}
	overlaps := func(ws []win, a, b int64) bool {
		for _, w := range ws {
			if w.from <= b && a <= w.to {
				return true
			}
		}
		return false
	}
	covers := func(ws []win, a, b int64) bool {
		for _, w := range ws {
			if w.from <= a && b <= w.to {
				return true
			}
		}
		return false
	}
	for _, sc := range scans {
		desc := func() string {
			var ks []int
			for _, o := range sc.obs {
				ks = append(ks, o.key)
			}
			return fmt.Sprintf("%s scan from %d (events %d..%d, refresh interval %d) returned %v", sc.task, sc.start, sc.call, sc.end, sc.refreshInt, ks)
		}
		seen := map[int]bool{}
		for i, o := range sc.obs {
			seen[o.key] = true
			// R2: only items present at some moment during the scan
			if !stable[o.key] && !overlaps(possibly[o.key], sc.call, o.ret) {
				env.Violate("C15", "returned-item-never-present", "%s: item %d was not present at any moment between scan start and its delivery", desc(), o.key)
			}
			if i == 0 {
				// R4: Seek(x) lands on y >= x with no stable item in [x, y)
				if sc.start > 0 {
					if o.key < sc.start {
						env.Violate("C15", "seek-lands-before-target", "%s: Seek(%d) landed on %d", desc(), sc.start, o.key)
					}
					for sk := range stable {
						if sk >= sc.start && sk < o.key {
							env.Violate("C15", "seek-skips-stable-item", "%s: Seek(%d) landed on %d, skipping stable item %d", desc(), sc.start, o.key, sk)
						}
					}
				}
				continue
			}
			p := sc.obs[i-1]
			// R1: never backwards; equal only after a delete and re-insert in between
			if o.key < p.key {
				env.Violate("C15", "iterator-goes-backwards", "%s: %d after %d", desc(), o.key, p.key)
			}
			if o.key == p.key {
				reins := false
				if !stable[o.key] {
					var delOK, insOK bool
					for _, e := range byKey[o.key] {
						// the re-insert lies between the two deliveries; the delete may have
						// completed before the first delivery (an iterator may return an item
						// that was present when the scan started and is unlinked under it)
						// the cursor may have reached the first of the two equal items as early
						// as right after the delivery before it (an explicit Refresh moves it
						// onto the successor of a deleted current item): the re-insert may lie
						// anywhere between that delivery and the second of the equal ones
						lo := sc.call
						if i >= 2 {
							lo = sc.obs[i-2].ret
						}
						if e.ins && e.call <= o.ret && lo <= e.ret {
							insOK = true
						}
						if !e.ins && e.call <= o.ret && sc.call <= e.ret {
							delOK = true
						}
					}
					reins = delOK && insOK
				}
				if !reins {
					env.Violate("C15", "item-returned-twice", "%s: %d returned twice without a delete and re-insert in between", desc(), o.key)
				}
			}
		}
		// R3: completeness within the scanned key range
		lo := sc.start
		hi := 1 << 30
		if !sc.ended {
			if len(sc.obs) == 0 {
				continue
			}
			hi = sc.obs[len(sc.obs)-1].key
		}
		var missing []int
		for sk := range stable {
			if sk >= lo && sk <= hi && !seen[sk] {
				missing = append(missing, sk)
			}
		}
		for ck, ws := range definitely {
			if ck >= lo && ck <= hi && !seen[ck] && covers(ws, sc.call, sc.end) {
				missing = append(missing, ck)
			}
		}
		sort.Ints(missing)
		if len(missing) > 0 {
			sig := "stable-item-missed"
			if !stable[missing[0]] {
				sig = "present-item-missed"
			}
			env.Violate("C15", sig, "%s: item(s) %v were present for the whole scan and lie in the scanned range but were not returned", desc(), missing)
		}
		if sc.start > 0 && len(sc.obs) == 0 && sc.ended {
			for sk := range stable {
				if sk >= sc.start {
					env.Violate("C15", "seek-skips-stable-item", "%s: Seek(%d) ended the scan although stable item %d follows", desc(), sc.start, sk)
				}
			}
		}
	}
	env.ProbeN("scans", len(scans))
}
