package nsim

import (
	"bytes"
	"encoding/binary"
	"fmt"
	"sort"
	"unsafe"

	"github.com/anishathalye/porcupine"
	"github.com/couchbase/nitro"
	"github.com/couchbase/nitro/skiplist"
)

// nitroEnv is the state of one nitro-level run: the instance under test, the
// reference model, the snapshot ledger and the recorded history.
type nitroEnv struct {
	env     *Env
	s       *Sched
	db      *nitro.Nitro
	cfg     nitro.Config
	ga      *GuardAlloc
	mm      bool
	kv      bool
	overlap bool
	nkeys   int
	writers []*nitro.Writer
	model   *MVModel
	snaps   []*snapRec
	valSeq  int

	nodeID   map[*skiplist.Node]int
	hist     []porcupine.Operation // current phase
	okDel    map[int]int           // successful deletes per key, current phase
	handles  []map[int]*skiplist.Node
	closing  bool // Nitro.Close has started
	inVisit  int
	// the guard allocator also served instances whose (failed) loads are outside C07
	allocShared bool
	// user-level node chaining through nitro.NodeList (Node.Link of live nodes)
	chain   *nitro.NodeList
	chained map[int][]byte
	closeIvs [][2]int64
	lastRec  *snapRec
}

type snapRec struct {
	idx       int
	snap      *nitro.Snapshot
	ms        *mvSnap
	ownerOpen bool
	closing   bool
	pending   int
	refs      int
}

// ---- item encoding ---------------------------------------------------------

func keyBytes(k int) []byte {
	switch {
	case k < 0:
		return []byte("a000")
	case k >= 1000:
		return []byte("z000")
	}
	// keys have different lengths (4..7 bytes; a longer key is followed by a shorter
	// one): code that keeps key bytes in a reused buffer must cope with a stale tail.
	// The first four bytes decide the order, so index order == byte order.
	if !varKeys {
		return []byte(fmt.Sprintf("k%03d", k))
	}
	return []byte(fmt.Sprintf("k%03d", k) + "~~~"[:[4]int{3, 0, 2, 1}[k%4]])
}

// varKeys is the "varkeys" knob of the running plan (runs of one process are
// sequential): plans recorded before the knob existed use 4-byte keys.
var varKeys bool

// kvEncode is the harness's own encoder of the KV item layout
// [2-byte little-endian key length][key][value].
func kvEncode(k, v []byte) []byte {
	b := make([]byte, 2, 2+len(k)+len(v))
	binary.LittleEndian.PutUint16(b, uint16(len(k)))
	b = append(b, k...)
	return append(b, v...)
}

func kvKey(b []byte) []byte {
	l := int(binary.LittleEndian.Uint16(b[0:2]))
	return b[2 : 2+l]
}

func (ne *nitroEnv) itemKey(b []byte) []byte {
	if ne.kv {
		return kvKey(b)
	}
	return b
}

// keyIndex maps item bytes back to the generator's key index.
func (ne *nitroEnv) keyIndex(b []byte) int {
	k := ne.itemKey(b)
	if len(k) >= 4 && k[0] == 'k' {
		return int(k[1]-'0')*100 + int(k[2]-'0')*10 + int(k[3]-'0')
	}
	return -2
}

// newItem builds the bytes for a Put of key k: in key-only mode every Put
// carries fresh, unique value bytes.
func (ne *nitroEnv) newItem(k int, who string) []byte {
	if !ne.kv {
		return keyBytes(k)
	}
	ne.valSeq++
	v := fmt.Sprintf("%s.%d", who, ne.valSeq)
	// vary the value length; 12+len(item) never has the size of a node block (<40)
	for len(v) < 5+(ne.valSeq*7)%12 {
		v += "_"
	}
	return kvEncode(keyBytes(k), []byte(v))
}

// probeItem builds bytes that compare equal to key k (for Delete/GetNode/Seek).
func (ne *nitroEnv) probeItem(k int) []byte {
	if !ne.kv {
		return keyBytes(k)
	}
	return kvEncode(keyBytes(k), nil)
}

func (ne *nitroEnv) keyCmp() nitro.KeyCompare {
	s := ne.s
	var inner func(a, b []byte) int
	switch {
	case !ne.kv:
		inner = bytes.Compare
	case ne.env.Plan.Knob("cmpimpl", 0) == 1:
		inner = nitro.CompareKV
	default:
		inner = func(a, b []byte) int { return bytes.Compare(kvKey(a), kvKey(b)) }
	}
	return func(a, b []byte) int {
		s.Yield(SiteHarnessCmp)
		// the comparator sees every key nitro looks at: with user-managed memory the
		// bytes must belong to an item block that has not been returned to the allocator
		if ne.ga != nil && (!ne.checkKeyMem(a) || !ne.checkKeyMem(b)) {
			return 0
		}
		return inner(a, b)
	}
}

// checkKeyMem reports a key handed to the comparator that lies in a released block.
func (ne *nitroEnv) checkKeyMem(k []byte) bool {
	if len(k) == 0 {
		return true
	}
	p := unsafe.Pointer(unsafe.SliceData(k))
	if !ne.ga.Owns(p) {
		return true // probe items live on the Go heap
	}
	hdr := unsafe.Pointer(uintptr(p) - 12) // item header in front of the data
	switch {
	case ne.ga.IsLive(hdr):
		return true
	case ne.ga.WasFreed(hdr):
		ne.env.Violate("C04", "use-after-free/item-passed-to-comparator", "the key comparator was handed the bytes of an item block that had already been returned to the allocator")
		ne.s.Abort("use after free seen by the comparator")
		return false
	}
	return true
}

// ---- set-up ------------------------------------------------------------------

func newNitroEnv(env *Env) *nitroEnv {
	p := env.Plan
	ne := &nitroEnv{env: env, s: env.S, model: NewMVModel(), nodeID: map[*skiplist.Node]int{}, okDel: map[int]int{}}
	ne.mm = p.Knob("mm", 0) == 1
	ne.kv = p.Knob("kv", 0) == 1
	varKeys = p.Knob("varkeys", 0) == 1
	ne.overlap = p.Knob("overlap", 0) == 1
	ne.nkeys = p.Knob("nkeys", 4)
	ne.cfg = ne.makeConfig()
	ne.db = nitro.NewWithConfig(ne.cfg)
	if p.Knob("chain", 0) == 1 && !ne.overlap {
		ne.chain = nitro.NewNodeList(nil)
		ne.chained = map[int][]byte{}
	}
	return ne
}

func (ne *nitroEnv) makeConfig() nitro.Config {
	p := ne.env.Plan
	cfg := nitro.DefaultConfig()
	cfg.SetKeyComparator(ne.keyCmp())
	if ne.mm {
		if ne.ga == nil {
			ne.ga = NewGuardAlloc(ne.env, p.Knob("protect", 1) == 1)
			ne.env.Alloc = ne.ga
			ne.ga.OnFree = ne.onFree
		}
		cfg.UseMemoryMgmt(ne.ga.Malloc, ne.ga.Free)
	}
	if p.Knob("delta", 0) == 1 {
		cfg.UseDeltaInterleaving()
	}
	if rr := p.Knob("visitor_refresh", -1); rr >= 0 {
		cfg.VerifSetRefreshRate(rr)
	}
	return cfg
}

// onFree implements oracle (d) of C04: a node must not be released while it
// is still linked at any level.
func (ne *nitroEnv) onFree(p unsafe.Pointer, b *block) {
	if b.class != "node" || ne.closing || ne.db == nil {
		return
	}
	sl := ne.db.VerifStore()
	head, tail := sl.HeadNode(), sl.TailNode()
	if !ne.ga.IsLive(unsafe.Pointer(head)) {
		return
	}
	for l := 0; l <= sl.VerifLevel()+1 && l <= skiplist.MaxLevel; l++ {
		steps := 0
		for n, _ := head.VerifNext(l); n != nil && n != tail; {
			if unsafe.Pointer(n) == p {
				ne.env.Violate("C04", "freed-while-linked", "node (height %d) released while still linked at level %d", n.Level(), l)
				return
			}
			if !ne.ga.IsLive(unsafe.Pointer(n)) {
				return
			}
			steps++
			if steps > 100000 {
				return
			}
			n, _ = n.VerifNext(l)
		}
	}
}

func (ne *nitroEnv) release() {
	if ne.ga != nil {
		ne.ga.Release()
	}
}

func (ne *nitroEnv) idOf(n *skiplist.Node) int {
	if n == nil {
		return 0
	}
	if id, ok := ne.nodeID[n]; ok {
		return id
	}
	id := len(ne.nodeID) + 1
	ne.nodeID[n] = id
	return id
}

// ---- porcupine model for one phase of writers: per-key register holding the
// id of the present node

type nIn struct {
	Op   string
	Key  int
	Node int
}

type nOut struct {
	Ok   bool
	Node int
	Val  string
}

var nitroModel = porcupine.Model{
	Partition: func(history []porcupine.Operation) [][]porcupine.Operation {
		m := map[int][]porcupine.Operation{}
		var keys []int
		for _, op := range history {
			k := op.Input.(nIn).Key
			if _, ok := m[k]; !ok {
				keys = append(keys, k)
			}
			m[k] = append(m[k], op)
		}
		sort.Ints(keys)
		var out [][]porcupine.Operation
		for _, k := range keys {
			out = append(out, m[k])
		}
		return out
	},
	Init: func() interface{} { return 0 },
	Step: func(state, input, output interface{}) (bool, interface{}) {
		st := state.(int)
		in := input.(nIn)
		out := output.(nOut)
		switch in.Op {
		case "init":
			return true, out.Node
		case "put":
			if out.Ok {
				return st == 0, out.Node
			}
			return st != 0, st
		case "del":
			if out.Ok {
				return st != 0, 0
			}
			return st == 0, st
		case "delnode":
			if out.Ok {
				return st != 0 && st == in.Node, 0
			}
			return st != in.Node, st
		case "get":
			if out.Ok {
				return st != 0 && st == out.Node, st
			}
			return st == 0, st
		case "final":
			return st == out.Node, st
		}
		return false, st
	},
	Equal: func(a, b interface{}) bool { return a.(int) == b.(int) },
	DescribeOperation: func(input, output interface{}) string {
		in := input.(nIn)
		out := output.(nOut)
		return fmt.Sprintf("%s(k%d,n%d)->%v,n%d", in.Op, in.Key, in.Node, out.Ok, out.Node)
	},
}

// ---- writer operations -------------------------------------------------------

func (ne *nitroEnv) itemOf(n *skiplist.Node) []byte {
	return (*nitro.Item)(n.Item()).Bytes()
}

// execWriterOp runs one Put/Delete/lookup through writer wi and checks or
// records its outcome.
func (ne *nitroEnv) execWriterOp(name string, wi int, op Op) {
	s := ne.s
	w := ne.writers[wi]
	k := op.Arg(0)
	in := nIn{Op: op.K, Key: k}
	var out nOut
	s.BeginOp()
	call := s.Stamp()
	switch op.K {
	case "put":
		item := ne.newItem(k, name)
		var want bool
		if !ne.overlap {
			want = ne.model.Put(k, item)
		}
		n := w.Put2(item)
		out.Ok = n != nil
		if n != nil {
			out.Node = ne.idOf(n)
			ne.handles[wi][k] = n
			out.Val = string(item)
			if ne.chain != nil {
				// the application links the nodes of its live items into its own list
				ne.chain.Add(n)
				ne.chained[k] = append([]byte{}, item...)
			}
		}
		if !ne.overlap && out.Ok != want {
			ne.env.Violate("C02", "put-result", "%s Put(k%d) returned %v, reference set says %v", name, k, out.Ok, want)
		}
	case "del", "del2":
		in.Op = "del"
		ne.unchain(k)
		var want bool
		if !ne.overlap {
			want = ne.model.Delete(k)
		}
		if op.K == "del2" {
			n, ok := w.Delete2(ne.probeItem(k))
			out.Ok = ok
			if ok && n == nil {
				ne.env.Violate("C02", "delete2-nil-node", "%s Delete2(k%d) succeeded with a nil node", name, k)
			}
		} else {
			out.Ok = w.Delete(ne.probeItem(k))
		}
		if out.Ok {
			delete(ne.handles[wi], k)
		}
		if !ne.overlap && out.Ok != want {
			ne.env.Violate("C02", "delete-result", "%s Delete(k%d) returned %v, reference set says %v", name, k, out.Ok, want)
		}
	case "delnode":
		ne.unchain(k)
		h := ne.handles[wi][k]
		if h == nil || (ne.overlap && ne.mm) {
			// no handle this writer may still own (or handle validity cannot be
			// guaranteed against racing writers with user-managed memory): plain Delete
			in.Op = "del"
			var want bool
			if !ne.overlap {
				want = ne.model.Delete(k)
			}
			out.Ok = w.Delete(ne.probeItem(k))
			if out.Ok {
				delete(ne.handles[wi], k)
			}
			if !ne.overlap && out.Ok != want {
				ne.env.Violate("C02", "delete-result", "%s Delete(k%d) returned %v, reference set says %v", name, k, out.Ok, want)
			}
			break
		}
		in.Node = ne.idOf(h)
		var want bool
		if !ne.overlap {
			want = ne.model.Delete(k)
		}
		out.Ok = w.DeleteNode(h)
		delete(ne.handles[wi], k)
		if !ne.overlap && out.Ok != want {
			ne.env.Violate("C02", "deletenode-result", "%s DeleteNode(k%d) returned %v, reference set says %v", name, k, out.Ok, want)
		}
	case "get":
		n := w.GetNode(ne.probeItem(k))
		out.Ok = n != nil
		out.Node = ne.idOf(n)
		if n != nil && !(ne.overlap && ne.mm) {
			ne.handles[wi][k] = n
		}
		if !ne.overlap {
			want := ne.model.Lookup(k)
			if (want != nil) != out.Ok {
				ne.env.Violate("C02", "lookup-result", "%s GetNode(k%d) found=%v, reference set says %v", name, k, out.Ok, want != nil)
			} else if n != nil {
				if got := ne.itemOf(n); !bytes.Equal(got, want) {
					ne.env.Violate("C02", "lookup-bytes", "%s GetNode(k%d) holds %q, reference set says %q", name, k, got, want)
				}
			}
		}
	default:
		s.EndOp()
		return
	}
	ret := s.Stamp()
	s.EndOp()
	if out.Ok && in.Op == "del" || out.Ok && in.Op == "delnode" {
		ne.okDel[k]++
	}
	ne.env.Logf("%s %s", name, fmtNOp(in, out, call, ret))
	ne.hist = append(ne.hist, porcupine.Operation{ClientId: wi, Input: in, Call: call, Output: out, Return: ret})
}

func fmtNOp(in nIn, out nOut, call, ret int64) string {
	return fmt.Sprintf("%s(k%d,n%d) -> %v,n%d [%d..%d]", in.Op, in.Key, in.Node, out.Ok, out.Node, call, ret)
}

// ---- snapshots -----------------------------------------------------------------

// scanAll reads a snapshot with a hand-held iterator. refreshRate 0 = none;
// refreshAt >= 0 calls Refresh() explicitly before delivering that position.
func (ne *nitroEnv) scanAll(snap *nitro.Snapshot, refreshRate, refreshAt int, hold bool) (items [][]byte, nodes []*skiplist.Node, ok bool) {
	it := snap.NewIterator()
	if it == nil {
		return nil, nil, false
	}
	if refreshRate > 0 {
		it.SetRefreshRate(refreshRate)
	}
	pos := 0
	for it.SeekFirst(); it.Valid(); it.Next() {
		if pos == refreshAt {
			it.Refresh()
			if !it.Valid() {
				break
			}
		}
		b := it.Get()
		if hold {
			// C04 (c): the bytes must stay valid and unchanged while the iterator rests here
			first := append([]byte{}, b...)
			ne.s.ForceYield(SiteHarnessOp)
			ne.s.Yield(SiteHarnessOp)
			if !bytes.Equal(first, b) {
				ne.env.Violate("C04", "iterator-item-changed-under-reader", "item bytes changed from %q to %q while the iterator rested on it", first, b)
			}
		}
		items = append(items, append([]byte{}, b...))
		nodes = append(nodes, it.GetNode())
		pos++
		if pos > 10000 {
			ne.env.Violate("C01", "scan-does-not-terminate", "scan delivered more than 10000 items")
			break
		}
	}
	it.Close()
	return items, nodes, true
}

// newSnapshot is called by the coordinator at a phase barrier.
func (ne *nitroEnv) newSnapshot(label string) *snapRec {
	s := ne.s
	s.BeginOp()
	snap, err := ne.db.NewSnapshot()
	s.EndOp()
	if err != nil || snap == nil {
		ne.env.Violate("C02", "newsnapshot-failed", "NewSnapshot: %v", err)
		return nil
	}
	rec := &snapRec{idx: len(ne.snaps), snap: snap, ownerOpen: true, refs: 1}
	// baseline scan taken at creation
	items, nodes, _ := ne.scanAll(snap, 0, -1, false)
	if ne.overlap {
		// validate the phase history including the snapshot content as final reads
		fin := s.Stamp()
		present := map[int]int{}
		vals := map[int][]byte{}
		for i, b := range items {
			k := ne.keyIndex(b)
			if _, dup := present[k]; dup {
				ne.env.Violate("C03", "snapshot-duplicate-key", "snapshot after racing writers contains key k%d twice: %s", k, fmtItems(items))
			}
			present[k] = ne.idOf(nodes[i])
			vals[k] = b
		}
		for k := 0; k < ne.nkeys; k++ {
			ne.hist = append(ne.hist, porcupine.Operation{ClientId: 99, Input: nIn{Op: "final", Key: k}, Call: fin, Output: nOut{Node: present[k]}, Return: fin + 1})
		}
		checkLinearizable(ne.env, "C03", nitroModel, ne.hist)
		// necessary conditions, reported by cause
		for k := 0; k < ne.nkeys; k++ {
			okPut, okDel := 0, 0
			for _, o := range ne.hist {
				in, out := o.Input.(nIn), o.Output.(nOut)
				if in.Key != k || !out.Ok {
					continue
				}
				switch in.Op {
				case "put":
					okPut++
				case "del", "delnode":
					okDel++
				}
			}
			was := 0
			if ne.model.Lookup(k) != nil {
				was = 1
			}
			now := 0
			if present[k] != 0 {
				now = 1
			}
			if was+okPut-okDel != now {
				ne.env.Violate("C03", "state-changes-do-not-add-up", "key k%d: present before=%d, successful puts=%d, successful deletes=%d, present in next snapshot=%d", k, was, okPut, okDel, now)
			}
			ne.model.ApplyPhaseOutcome(k, ne.okDel[k], vals[k])
		}
	}
	rec.ms = ne.model.NewSnapshot()
	if !ne.overlap {
		if d := diffExact(items, rec.ms.content); d != "" {
			ne.env.Violate("C02", "snapshot-content", "snapshot %d (%s) at creation: %s", rec.idx, label, d)
		}
	} else {
		rec.ms.content = items
	}
	if c := snap.Count(); int(c) != len(rec.ms.content) {
		ne.env.Violate("C02", "snapshot-count", "snapshot %d Count()=%d, reference set has %d items", rec.idx, c, len(rec.ms.content))
	}
	if c := ne.db.ItemsCount(); int(c) != len(rec.ms.content) {
		ne.env.Violate("C02", "items-count", "ItemsCount()=%d after NewSnapshot, reference set has %d items", c, len(rec.ms.content))
	}
	// next phase: handles from earlier epochs stay usable for DeleteNode by their
	// owner as long as the owner has not deleted them (cross-epoch DeleteNode)
	ne.hist = nil
	ne.okDel = map[int]int{}
	for k := 0; k < ne.nkeys; k++ {
		if v := ne.model.live[k]; v != nil {
			var node int
			for i, b := range items {
				if ne.keyIndex(b) == k {
					node = ne.idOf(nodes[i])
				}
			}
			ne.hist = append(ne.hist, porcupine.Operation{ClientId: 98, Input: nIn{Op: "init", Key: k}, Call: 0, Output: nOut{Ok: true, Node: node}, Return: 0})
		}
	}
	ne.snaps = append(ne.snaps, rec)
	ne.lastRec = rec
	ne.env.Logf("snapshot %d sn=%d items=%d", rec.idx, snap.VerifSn(), len(rec.ms.content))
	return rec
}

// pickOpen resolves a generated snapshot index to a registered snapshot that
// is still open and not being closed by its owner.
func (ne *nitroEnv) pickOpen(idx int) *snapRec {
	n := len(ne.snaps)
	for i := 0; i < n; i++ {
		r := ne.snaps[(idx+i)%n]
		if r.ownerOpen && !r.closing {
			return r
		}
	}
	return nil
}

// acquire opens one more handle on rec (the ledger guarantees the owner's
// handle is still held, so Open must succeed).
func (ne *nitroEnv) acquire(rec *snapRec) bool {
	rec.pending++
	ok := rec.snap.Open()
	rec.pending--
	if !ok {
		ne.env.Violate("C08", "open-failed-on-held-snapshot", "Open() returned false on snapshot %d while its owner handle is held", rec.idx)
		return false
	}
	rec.refs++
	return true
}

func (ne *nitroEnv) releaseHandle(rec *snapRec) {
	call := ne.s.Stamp()
	rec.snap.Close()
	ret := ne.s.Stamp()
	rec.refs--
	if rec.refs == 0 {
		rec.ms.closed = true
		ne.closeIvs = append(ne.closeIvs, [2]int64{call, ret})
		ne.env.Logf("snapshot %d fully closed [%d..%d]", rec.idx, call, ret)
	}
}

// closeOwner closes the owner's handle of rec (once).
func (ne *nitroEnv) closeOwner(rec *snapRec) {
	if rec == nil || !rec.ownerOpen || rec.closing {
		return
	}
	rec.closing = true
	ne.s.WaitUntil(func() bool { return rec.pending == 0 })
	rec.ownerOpen = false
	ne.s.BeginOp()
	ne.releaseHandle(rec)
	ne.s.EndOp()
}

// ---- quiescent oracles ---------------------------------------------------------

type physVersion struct {
	key  int
	val  string
	born uint32
	dead uint32
}

// physicalSet walks level 0 of the store (non-yielding).
func (ne *nitroEnv) physicalSet() ([]physVersion, *walkResult) {
	sl := ne.db.VerifStore()
	var isLive func(unsafe.Pointer) bool
	if ne.ga != nil {
		isLive = ne.ga.IsLive
	}
	rawKey := func(p unsafe.Pointer) []byte { return ne.itemKey((*nitro.Item)(p).Bytes()) }
	cmp := func(a, b unsafe.Pointer) int {
		if v := bytes.Compare(rawKey(a), rawKey(b)); v != 0 {
			return v
		}
		ba, _ := (*nitro.Item)(a).VerifSn()
		bb, _ := (*nitro.Item)(b).VerifSn()
		return int(ba) - int(bb)
	}
	w := walkSkiplist(sl, cmp, isLive)
	var out []physVersion
	for _, n := range w.Level0 {
		if _, marked := n.VerifNext(0); marked {
			continue
		}
		itm := (*nitro.Item)(n.Item())
		b, d := itm.VerifSn()
		out = append(out, physVersion{key: ne.keyIndex(itm.Bytes()), val: string(itm.Bytes()), born: b, dead: d})
	}
	return out, w
}

// checkQuiescent evaluates the C06 completeness oracle and the C14 walk.
// Returns a description of the mismatch ("" if none).
func (ne *nitroEnv) checkQuiescent(report bool, tag string) string {
	phys, w := ne.physicalSet()
	if report {
		for _, p := range w.Problems {
			ne.env.Violate("C14", "walk:"+problemClass(p), "%s (%s)", p, tag)
		}
		agg := ne.db.DumpStats()
		_ = agg
		for _, p := range ne.storeStatsProblems(w) {
			ne.env.Violate("C14", problemClass(p), "%s (%s)", p, tag)
		}
	}
	want := ne.model.ExpectedPhysical()
	mismatch := ""
	if len(phys) != len(want) {
		mismatch = fmt.Sprintf("%d versions linked, %d expected", len(phys), len(want))
	} else {
		for i := range phys {
			if phys[i].key != want[i].key || phys[i].born != want[i].born || phys[i].val != string(want[i].val) {
				mismatch = fmt.Sprintf("position %d holds k%d born %d, expected k%d born %d", i, phys[i].key, phys[i].born, want[i].key, want[i].born)
				break
			}
		}
	}
	if mismatch != "" {
		mismatch += "; linked: " + fmtPhys(phys) + " expected: " + fmtWant(want)
	}
	if lc := ne.model.lastCollectable(); mismatch == "" && ne.db.GetLastGCSn() != lc {
		mismatch = fmt.Sprintf("GetLastGCSn()=%d, expected %d", ne.db.GetLastGCSn(), lc)
	}
	if mismatch == "" {
		// snapshot bookkeeping: the live list holds exactly the open snapshots, the
		// retired list exactly the closed ones that cannot be collected yet
		var wantOpen, wantRetired []uint32
		lc := ne.model.lastCollectable()
		for _, ms := range ne.model.snaps {
			switch {
			case !ms.closed:
				wantOpen = append(wantOpen, ms.sn)
			case ms.sn > lc:
				wantRetired = append(wantRetired, ms.sn)
			}
		}
		gotOpen, openBytes := snapList(ne.db.VerifSnapshots())
		gotRetired, retiredBytes := snapList(ne.db.VerifGCSnapshots())
		if fmt.Sprint(gotOpen) != fmt.Sprint(wantOpen) || fmt.Sprint(gotRetired) != fmt.Sprint(wantRetired) {
			mismatch = fmt.Sprintf("snapshot lists: open %v retired %v, expected open %v retired %v", gotOpen, gotRetired, wantOpen, wantRetired)
		} else if mu := ne.db.MemoryInUse(); mu != w.Bytes+openBytes+retiredBytes {
			// expected memory is computed from the walk with nitro's public size functions
			mismatch = fmt.Sprintf("MemoryInUse()=%d, the linked store nodes measure %d and the snapshot lists %d+%d", mu, w.Bytes, openBytes, retiredBytes)
		}
	}
	return mismatch
}

// snapList walks one of the snapshot bookkeeping lists (non-yielding).
func snapList(sl *skiplist.Skiplist) (sns []uint32, bytes int64) {
	head, tail := sl.HeadNode(), sl.TailNode()
	for n, _ := head.VerifNext(0); n != nil && n != tail; {
		next, marked := n.VerifNext(0)
		if !marked {
			sns = append(sns, (*nitro.Snapshot)(n.Item()).VerifSn())
		}
		bytes += int64(sl.Size(n))
		n = next
	}
	return
}

func fmtPhys(p []physVersion) string {
	parts := make([]string, len(p))
	for i, v := range p {
		parts[i] = fmt.Sprintf("k%d(b%d,d%d)", v.key, v.born, v.dead)
	}
	return "[" + joinMax(parts, 30) + "]"
}

func fmtWant(p []*mvVersion) string {
	parts := make([]string, len(p))
	for i, v := range p {
		parts[i] = fmt.Sprintf("k%d(b%d,d%d)", v.key, v.born, v.dead)
	}
	return "[" + joinMax(parts, 30) + "]"
}

// storeStatsProblems reconciles the aggregated store statistics with a walk.
func (ne *nitroEnv) storeStatsProblems(w *walkResult) []string {
	var p []string
	var st skiplist.StatsReport
	// DumpStats()/MemoryInUse() aggregate the writers' local counters
	fmt.Sscanf("", "")
	st = ne.aggrStats()
	if st.NodeCount != len(w.Level0) {
		p = append(p, fmt.Sprintf("stats-node-count: node_count=%d, walk finds %d nodes linked at level 0", st.NodeCount, len(w.Level0)))
	}
	for h := 0; h <= skiplist.MaxLevel; h++ {
		if st.NodeDistribution[h] != w.PerHeight[h] {
			p = append(p, fmt.Sprintf("stats-distribution: height %d: stats %d, walk %d", h, st.NodeDistribution[h], w.PerHeight[h]))
			break
		}
	}
	if st.SoftDeletes != int64(w.Marked0) {
		p = append(p, fmt.Sprintf("stats-soft-deletes: stats %d, walk finds %d marked nodes linked at level 0", st.SoftDeletes, w.Marked0))
	}
	if st.Memory != w.Bytes {
		p = append(p, fmt.Sprintf("stats-memory: memory_used=%d, walk measures %d", st.Memory, w.Bytes))
	}
	return p
}

// aggrStats parses DumpStats() (the public aggregation over writers).
func (ne *nitroEnv) aggrStats() skiplist.StatsReport {
	var st skiplist.StatsReport
	str := ne.db.DumpStats()
	get := func(name string) int64 {
		i := indexOf(str, `"`+name+`":`)
		if i < 0 {
			return -1
		}
		var v int64
		fmt.Sscanf(str[i+len(name)+3:], "%d", &v)
		return v
	}
	st.NodeCount = int(get("node_count"))
	st.SoftDeletes = get("soft_deletes")
	st.Memory = get("memory_used")
	st.NodeAllocs = get("node_allocs")
	st.NodeFrees = get("node_frees")
	for h := 0; h <= skiplist.MaxLevel; h++ {
		st.NodeDistribution[h] = get(fmt.Sprintf("level%d", h))
	}
	return st
}

func indexOf(s, sub string) int {
	for i := 0; i+len(sub) <= len(s); i++ {
		if s[i:i+len(sub)] == sub {
			return i
		}
	}
	return -1
}

// closesOverlapped reports whether any two final-handle Close calls (or GC
// calls) of the run overlapped in event order.
func (ne *nitroEnv) closesOverlapped() bool {
	iv := ne.closeIvs
	for i := range iv {
		for j := i + 1; j < len(iv); j++ {
			if iv[i][0] < iv[j][1] && iv[j][0] < iv[i][1] {
				return true
			}
		}
	}
	return false
}

// unchain takes the node of key k out of the application's node list before
// the item is deleted (NodeList.Remove leaves the removed node's own link set).
func (ne *nitroEnv) unchain(k int) {
	if ne.chain == nil {
		return
	}
	if b, ok := ne.chained[k]; ok {
		if ne.chain.Remove(b) == nil {
			ne.env.Violate("C07", "nodelist-lost-node", "NodeList.Remove did not find the node of a live item (k%d): the list was corrupted", k)
		}
		delete(ne.chained, k)
	}
}

// checkChain compares the application's node list with the live items it chained.
func (ne *nitroEnv) checkChain() {
	if ne.chain == nil {
		return
	}
	got := map[string]int{}
	n := 0
	for _, b := range ne.chain.Keys() {
		got[string(b)]++
		n++
		if n > 100000 {
			ne.env.Violate("C07", "nodelist-cycle", "the application's node list does not end")
			return
		}
	}
	for k, b := range ne.chained {
		if got[string(b)] != 1 {
			ne.env.Violate("C07", "nodelist-corrupted", "the node of live item k%d appears %d times in the application's node list", k, got[string(b)])
			return
		}
	}
	if n != len(ne.chained) {
		ne.env.Violate("C07", "nodelist-corrupted", "the application's node list holds %d nodes, %d live items were chained", n, len(ne.chained))
	}
}

// lastCloseAlone reports whether the Close that retired a snapshot last did
// not overlap any other final Close or GC call: then that Close alone must
// have triggered the collection of everything that is collectable.
func (ne *nitroEnv) lastCloseAlone() bool {
	iv := ne.closeIvs
	if len(iv) == 0 {
		return false
	}
	last := 0
	for i := range iv {
		if iv[i][1] > iv[last][1] {
			last = i
		}
	}
	for i := range iv {
		if i != last && iv[i][0] < iv[last][1] && iv[last][0] < iv[i][1] {
			return false
		}
	}
	return true
}
