package nsim

// Rng is a splitmix64 stream. Every random choice of a run is drawn from
// streams derived from the run seed, split by purpose.
type Rng struct{ s uint64 }

const (
	purposePlan  = 0x9e3779b97f4a7c15
	purposeSched = 0xbf58476d1ce4e5b9
	purposeFault = 0x94d049bb133111eb
	purposeLevel = 0xd6e8feb86659fd93
)

func mix64(z uint64) uint64 {
	z += 0x9e3779b97f4a7c15
	z = (z ^ (z >> 30)) * 0xbf58476d1ce4e5b9
	z = (z ^ (z >> 27)) * 0x94d049bb133111eb
	return z ^ (z >> 31)
}

func NewRng(seed uint64, purpose uint64) *Rng {
	return &Rng{s: mix64(seed ^ purpose)}
}

func (r *Rng) U64() uint64 {
	r.s += 0x9e3779b97f4a7c15
	z := r.s
	z = (z ^ (z >> 30)) * 0xbf58476d1ce4e5b9
	z = (z ^ (z >> 27)) * 0x94d049bb133111eb
	return z ^ (z >> 31)
}

// Intn returns a value in [0,n).
func (r *Rng) Intn(n int) int {
	if n <= 1 {
		return 0
	}
	return int(r.U64() % uint64(n))
}

// Range returns a value in [lo,hi].
func (r *Rng) Range(lo, hi int) int {
	if hi <= lo {
		return lo
	}
	return lo + r.Intn(hi-lo+1)
}

func (r *Rng) Float() float64 {
	return float64(r.U64()>>11) / float64(1<<53)
}

func (r *Rng) Bool(p float64) bool { return r.Float() < p }

func (r *Rng) Pick(xs []int) int { return xs[r.Intn(len(xs))] }

// RunSeed derives the seed of run index i from the base seed.
func RunSeed(base uint64, i uint64) uint64 {
	return mix64(mix64(base) ^ (i * 0x2545f4914f6cdd1d))
}
