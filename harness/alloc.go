package nsim

import (
	"fmt"
	"sort"
	"syscall"
	"unsafe"
)

const pageSize = 4096

// GuardAlloc is the allocator handed to nitro through UseMemoryMgmt. Every
// block sits at the end of its own page run followed by an inaccessible guard
// page, addresses are never reused within a run, and freed blocks are
// poisoned and (in mprotect mode) made inaccessible, so any later access
// faults.
type GuardAlloc struct {
	arena    []byte
	base     uintptr
	next     uintptr // offset of the next unused page
	rwTo     uintptr // poison-only mode: arena is accessible up to this offset
	protect  bool
	live     map[uintptr]*block
	freed    map[uintptr]*block
	order    []*block
	env      *Env
	OnFree   func(p unsafe.Pointer, b *block) // before the block is poisoned
	Mallocs  int
	BadFrees int // double frees and frees of unknown pointers
	Frees    int
	NoYield  bool
	failures []string
	huge     map[uintptr][]byte
}

type block struct {
	addr   uintptr
	size   int
	pages  int
	seq    int64
	class  string
	freedS int64
}

const arenaSize = 1 << 27 // 128 MiB of address space, shared by the runs of one process

// The arena is mapped once per process and recycled between runs: within a
// run no address is ever reused, across runs the (already faulted-in) pages
// are. Fresh anonymous pages are expensive in this VM.
var procArena []byte
var procArenaDirty uintptr // prefix whose page protections are mixed (left by an mprotect-mode run)
var procArenaRW uintptr    // prefix that is readable and writable (left by a poison-only run)
var procArenaUsed uintptr  // prefix the previous run allocated from

func NewGuardAlloc(env *Env, protect bool) *GuardAlloc {
	if procArena == nil {
		mem, err := syscall.Mmap(-1, 0, arenaSize, syscall.PROT_NONE, syscall.MAP_ANON|syscall.MAP_PRIVATE|syscall.MAP_NORESERVE)
		if err != nil {
			panic(fmt.Sprintf("guard allocator: mmap: %v", err))
		}
		procArena = mem
	}
	g := &GuardAlloc{
		arena:   procArena,
		base:    uintptr(unsafe.Pointer(&procArena[0])),
		protect: protect,
		live:    map[uintptr]*block{},
		freed:   map[uintptr]*block{},
		env:     env,
		huge:    map[uintptr][]byte{},
	}
	reset := func(n uintptr, prot int) {
		if n > 0 {
			if err := syscall.Mprotect(procArena[:n], prot); err != nil {
				panic(fmt.Sprintf("guard allocator: mprotect reset: %v", err))
			}
		}
	}
	// Every run starts from the same arena state whatever ran before in this
	// process: the part the previous run could touch is cleared and the whole arena
	// is inaccessible again, so that even code reading memory it never allocated
	// (a stale or poisoned pointer) behaves the same in a replay process.
	n := procArenaDirty
	if procArenaRW > n {
		n = procArenaRW
	}
	if n > 0 {
		reset(n, syscall.PROT_READ|syscall.PROT_WRITE)
		// the whole accessible prefix, not only what was allocated: a read or CAS
		// through a poisoned height field lands up to 1 MiB past the block
		clear(procArena[:n])
		reset(n, syscall.PROT_NONE)
	}
	procArenaDirty, procArenaRW, procArenaUsed = 0, 0, 0
	return g
}

// Release ends the use of the arena by this run (nothing may touch it later).
func (g *GuardAlloc) Release() {
	for a, hb := range g.huge {
		syscall.Munmap(hb)
		delete(g.huge, a)
	}
	if g.arena != nil {
		procArenaUsed = (g.next + pageSize - 1) &^ (pageSize - 1)
		if g.protect {
			procArenaDirty = procArenaUsed
		} else {
			procArenaRW = g.rwTo
		}
		g.arena = nil
	}
}

func classOfSize(size int) string {
	// node blocks are 24 + 16*(level+1) bytes; generators avoid item sizes of that form
	if size >= 40 && (size-24)%16 == 0 {
		lvl := (size-24)/16 - 1
		if lvl == 32 {
			return "sentinel"
		}
		return "node"
	}
	return "item"
}

func (g *GuardAlloc) Malloc(size int) unsafe.Pointer {
	if g.env != nil && !g.NoYield {
		g.env.S.Yield(SiteHarnessMalloc)
	}
	if size > 1<<20 {
		// huge requests (a damaged length prefix) come from the Go heap, like a
		// lazily committing malloc; they are tracked but not guarded
		// mapped lazily: pages that are never touched cost nothing
		b, err := syscall.Mmap(-1, 0, size, syscall.PROT_READ|syscall.PROT_WRITE, syscall.MAP_ANON|syscall.MAP_PRIVATE|syscall.MAP_NORESERVE)
		if err != nil {
			panic(fmt.Sprintf("guard allocator: cannot map %d bytes: %v", size, err))
		}
		p := unsafe.Pointer(&b[0])
		g.huge[uintptr(p)] = b
		blk := &block{addr: uintptr(p), size: size, class: "item", pages: -1}
		g.live[blk.addr] = blk
		g.order = append(g.order, blk)
		g.Mallocs++
		return p
	}
	pages := (size + pageSize - 1) / pageSize
	if pages == 0 {
		pages = 1
	}
	need := uintptr(pages+1) * pageSize
	if g.next+need > uintptr(len(g.arena)) {
		panic("guard allocator: arena exhausted")
	}
	asize := (size + 7) &^ 7
	var addr uintptr
	if g.protect {
		off := g.next
		g.next += need
		region := g.arena[off : off+uintptr(pages)*pageSize]
		if err := syscall.Mprotect(region, syscall.PROT_READ|syscall.PROT_WRITE); err != nil {
			panic(fmt.Sprintf("guard allocator: mprotect rw: %v", err))
		}
		addr = g.base + off + uintptr(pages)*pageSize - uintptr(asize)
	} else {
		// poison-only mode: blocks are packed with a red zone in between; the
		// arena is made accessible in 1 MiB steps (no system call per block)
		const redzone = 64
		need = uintptr(asize + redzone)
		if g.next+need > uintptr(len(g.arena)) {
			panic("guard allocator: arena exhausted")
		}
		for g.next+need > g.rwTo {
			step := uintptr(1 << 20)
			if g.rwTo+step > uintptr(len(g.arena)) {
				step = uintptr(len(g.arena)) - g.rwTo
			}
			if err := syscall.Mprotect(g.arena[g.rwTo:g.rwTo+step], syscall.PROT_READ|syscall.PROT_WRITE); err != nil {
				panic(fmt.Sprintf("guard allocator: mprotect rw: %v", err))
			}
			g.rwTo += step
		}
		addr = g.base + g.next
		g.next += need
		rz := unsafe.Slice((*byte)(unsafe.Pointer(addr+uintptr(asize))), redzone)
		for i := range rz {
			rz[i] = 0xCC
		}
		pages = 0
	}
	// recycled pages hold data of earlier runs: every block starts with the same pattern
	fresh := unsafe.Slice((*byte)(unsafe.Pointer(addr)), asize)
	for i := range fresh {
		fresh[i] = 0xAA
	}
	var seq int64
	if g.env != nil {
		seq = g.env.S.Stamp()
	}
	b := &block{addr: addr, size: size, pages: pages, seq: seq, class: classOfSize(size)}
	g.live[addr] = b
	g.order = append(g.order, b)
	g.Mallocs++
	return unsafe.Pointer(addr)
}

func (g *GuardAlloc) Free(p unsafe.Pointer) {
	if g.env != nil && !g.NoYield {
		g.env.S.Yield(SiteHarnessFree)
	}
	addr := uintptr(p)
	b, ok := g.live[addr]
	if !ok {
		g.BadFrees++
		if fb, was := g.freed[addr]; was {
			g.fail("C04", "double-free/"+fb.class, "block %#x (%s, %d bytes, allocated at event %d, first freed at event %d) freed again", addr, fb.class, fb.size, fb.seq, fb.freedS)
			// also C07: every block is returned exactly once
			g.fail("C07", "returned-twice/"+fb.class, "%s block of %d bytes (allocated at event %d, first freed at event %d) returned to the allocator again", fb.class, fb.size, fb.seq, fb.freedS)
		} else {
			g.fail("C04", "free-unknown", "free of pointer %#x that was never allocated", addr)
			g.fail("C07", "returned-never-allocated", "a pointer that was never handed out was returned to the allocator")
		}
		return
	}
	if b.pages < 0 {
		delete(g.live, addr)
		if hb := g.huge[addr]; hb != nil {
			syscall.Munmap(hb)
		}
		delete(g.huge, addr)
		g.Frees++
		return
	}
	if g.OnFree != nil {
		g.OnFree(p, b)
	}
	delete(g.live, addr)
	g.freed[addr] = b
	if g.env != nil {
		b.freedS = g.env.S.Stamp()
	}
	g.Frees++
	mem := unsafe.Slice((*byte)(p), (b.size+7)&^7)
	for i := range mem {
		mem[i] = 0xDD
	}
	if g.protect {
		start := (addr - g.base) &^ (pageSize - 1)
		region := g.arena[start : start+uintptr(b.pages)*pageSize]
		if err := syscall.Mprotect(region, syscall.PROT_NONE); err != nil {
			panic(fmt.Sprintf("guard allocator: mprotect none: %v", err))
		}
	}
}

func (g *GuardAlloc) fail(prop, sig, format string, args ...interface{}) {
	if g.env != nil {
		g.env.Violate(prop, sig, format, args...)
	} else {
		g.failures = append(g.failures, fmt.Sprintf(format, args...))
	}
}

// IsLive reports whether p is the start of a live block.
func (g *GuardAlloc) IsLive(p unsafe.Pointer) bool {
	_, ok := g.live[uintptr(p)]
	return ok
}

func (g *GuardAlloc) WasFreed(p unsafe.Pointer) bool {
	_, ok := g.freed[uintptr(p)]
	return ok
}

// Owns reports whether p points into this allocator's arena.
func (g *GuardAlloc) Owns(p unsafe.Pointer) bool {
	a := uintptr(p)
	return a >= g.base && a < g.base+uintptr(len(g.arena))
}

// LiveBlocks returns the live blocks in allocation order.
func (g *GuardAlloc) LiveBlocks() []*block {
	var out []*block
	for _, b := range g.live {
		out = append(out, b)
	}
	sort.Slice(out, func(i, j int) bool { return out[i].addr < out[j].addr })
	return out
}

func (g *GuardAlloc) LiveByClass() map[string]int {
	m := map[string]int{}
	for _, b := range g.live {
		m[b.class]++
	}
	return m
}

// CheckPoison verifies that freed blocks still hold the poison pattern
// (poison-only mode: a write after free is detected here).
func (g *GuardAlloc) CheckPoison() {
	if g.protect {
		return
	}
	for _, b := range g.order {
		if b.pages < 0 {
			continue
		}
		asz := (b.size + 7) &^ 7
		rz := unsafe.Slice((*byte)(unsafe.Pointer(b.addr+uintptr(asz))), 64)
		for i, c := range rz {
			if c != 0xCC {
				g.fail("C04", "write-past-end/"+b.class, "red zone behind %s block of %d bytes modified at offset %d", b.class, b.size, i)
				break
			}
		}
	}
	for _, b := range g.order {
		if b.pages < 0 || (b.freedS == 0 && g.live[b.addr] != nil) {
			continue
		}
		if _, ok := g.freed[b.addr]; !ok {
			continue
		}
		mem := unsafe.Slice((*byte)(unsafe.Pointer(b.addr)), (b.size+7)&^7)
		for i, c := range mem {
			if c != 0xDD {
				g.fail("C04", "write-after-free/"+b.class, "freed block %#x (%s) modified at offset %d after free", b.addr, b.class, i)
				break
			}
		}
	}
}

// plainAlloc is a trivial allocator over the Go heap for scenarios that need
// user-managed mode but not the guard (barrier level).
type plainAlloc struct {
	keep map[uintptr][]byte
}

func newPlainAlloc() *plainAlloc { return &plainAlloc{keep: map[uintptr][]byte{}} }

func (a *plainAlloc) Malloc(size int) unsafe.Pointer {
	b := make([]byte, size+8)
	p := unsafe.Pointer(&b[0])
	a.keep[uintptr(p)] = b
	return p
}

func (a *plainAlloc) Free(p unsafe.Pointer) { delete(a.keep, uintptr(p)) }

// DescribeAddr explains an address inside the arena (for fault reports).
func (g *GuardAlloc) DescribeAddr(a uintptr) (string, bool) {
	if a < g.base || a >= g.base+uintptr(len(g.arena)) {
		return "", false
	}
	for _, b := range g.order {
		if b.pages < 0 {
			continue
		}
		start := (b.addr - g.base) &^ (pageSize - 1)
		end := start + uintptr(b.pages+1)*pageSize
		if b.pages == 0 {
			start = b.addr - g.base
			end = start + uintptr((b.size+7)&^7) + 64
		}
		off := a - g.base
		if off >= start && off < end {
			st := "live"
			if b.freedS != 0 {
				st = fmt.Sprintf("freed at event %d", b.freedS)
			}
			where := "inside"
			if a < b.addr {
				where = "before"
			} else if a >= b.addr+uintptr((b.size+7)&^7) {
				where = "past the end of"
			}
			return fmt.Sprintf("%s %s block of %d bytes allocated at event %d (%s)", where, b.class, b.size, b.seq, st), b.freedS != 0
		}
	}
	return "unallocated arena page", false
}
