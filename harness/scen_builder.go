package nsim

import (
	"fmt"
	"runtime"
	"sort"
	"unsafe"

	"github.com/anishathalye/porcupine"
	"github.com/couchbase/nitro/skiplist"
)

// Scenario "builder": segments filled concurrently, Assemble, then a
// concurrent phase on the assembled list (C18 first sentence, C14).
// Scenario "merge": MergeIterator cursor programs against a sorted multiset
// (C18 second sentence; sequential code, no schedule dimension).

func init() {
	register(&Scenario{Name: "builder", Props: []string{"C18", "C14", "C13"}, Gen: genBuilder, Run: runBuilder})
	register(&Scenario{Name: "merge", Props: []string{"C18"}, Gen: genMerge, Run: runMerge})
}

func genBuilder(seed uint64, tier string) *Plan {
	r := NewRng(seed, purposePlan)
	p := &Plan{Scenario: "builder", Seed: seed, Knobs: map[string]int{}}
	p.Knobs["mm"] = r.Intn(2)
	p.Knobs["protect"] = 0
	nseg := r.Range(0, 8)
	p.Knobs["nseg"] = nseg
	emptyMode := r.Intn(5) // 0 none, 1 leading, 2 trailing, 3 middle, 4 all
	for i := 0; i < nseg; i++ {
		n := r.Range(1, 20)
		if r.Bool(0.2) {
			n = r.Range(1, 3)
		}
		switch {
		case emptyMode == 4:
			n = 0
		case emptyMode == 1 && i == 0, emptyMode == 2 && i == nseg-1, emptyMode == 3 && i == nseg/2:
			n = 0
		case r.Bool(0.1):
			n = 0
		}
		tp := TaskPlan{Name: fmt.Sprintf("seg%d", i), Phase: 0}
		for j := 0; j < n; j++ {
			tp.Ops = append(tp.Ops, Op{K: "add", A: []int{i*100 + j*2 + 1}})
		}
		p.Tasks = append(p.Tasks, tp)
	}
	// later operations on the assembled list
	nc := r.Range(1, 3)
	for i := 0; i < nc; i++ {
		tp := TaskPlan{Name: fmt.Sprintf("c%d", i), Phase: 1}
		n := r.Range(1, 8)
		for j := 0; j < n; j++ {
			seg := 0
			if nseg > 0 {
				seg = r.Intn(nseg)
			}
			key := seg*100 + r.Intn(12)
			switch x := r.Intn(10); {
			case x < 4:
				tp.Ops = append(tp.Ops, Op{K: "ins", A: []int{key, r.Intn(5)}})
			case x < 7:
				tp.Ops = append(tp.Ops, Op{K: "del", A: []int{key}})
			default:
				tp.Ops = append(tp.Ops, Op{K: "lookup", A: []int{key}})
			}
		}
		p.Tasks = append(p.Tasks, tp)
	}
	p.Sched = GenSched(r, seed, 40*p.NumOps()+100, []int{skiplist.SiteNewLevelCAS, SiteHarnessMalloc, skiplist.SiteDcasNext})
	return p
}

func runBuilder(env *Env) {
	s := env.S
	plan := env.Plan
	mm := plan.Knob("mm", 0) == 1
	var ga *GuardAlloc
	var items []*intItem
	defer func() { runtime.KeepAlive(&items) }()
	newItem := func(k int) unsafe.Pointer {
		it := &intItem{key: k}
		items = append(items, it)
		return unsafe.Pointer(it)
	}
	cmp := func(a, b unsafe.Pointer) int {
		s.Yield(SiteHarnessCmp)
		return intOf(a) - intOf(b)
	}
	cfg := skiplist.DefaultConfig()
	cfg.ItemSize = func(unsafe.Pointer) int { return 8 }
	var sl *skiplist.Skiplist
	if mm {
		ga = NewGuardAlloc(env, false)
		defer ga.Release()
		env.Alloc = ga
		cfg.UseMemoryMgmt = true
		cfg.Malloc = ga.Malloc
		cfg.Free = ga.Free
		cfg.BarrierDestructor = func(ref unsafe.Pointer) {
			s.Yield(SiteHarnessCallback)
			sl.FreeNode((*skiplist.Node)(ref), &sl.Stats)
		}
	}
	b := skiplist.NewBuilderWithConfig(cfg)
	b.SetItemSizeFunc(func(unsafe.Pointer) int { return 8 })
	var segs []*skiplist.Segment
	var want []int
	var segTasks, clientTasks []TaskPlan
	for _, tp := range plan.Tasks {
		if tp.Phase == 0 {
			segTasks = append(segTasks, tp)
		} else {
			clientTasks = append(clientTasks, tp)
		}
	}
	callbacks := 0
	for _, tp := range segTasks {
		seg := b.NewSegment()
		seg.SetNodeCallback(func(n *skiplist.Node) { callbacks++ })
		segs = append(segs, seg)
		for _, op := range tp.Ops {
			want = append(want, op.Arg(0))
		}
	}
	for i, tp := range segTasks {
		i, tp := i, tp
		s.Go(tp.Name, func() {
			for _, op := range tp.Ops {
				s.Yield(SiteHarnessOp)
				s.BeginOp()
				segs[i].Add(newItem(op.Arg(0)))
				s.EndOp()
			}
		})
	}
	if !env.Finish(s.Run(), "") {
		return
	}
	sl = b.Assemble(segs...)
	if callbacks != len(want) {
		env.Violate("C18", "node-callback-count", "node callback ran %d times for %d items", callbacks, len(want))
	}
	scan := func() []int {
		var out []int
		it := sl.NewIterator(cmpIntRaw, sl.MakeBuf())
		for it.SeekFirst(); it.Valid(); it.Next() {
			out = append(out, intOf(it.Get()))
			if len(out) > 100000 {
				break
			}
		}
		it.Close()
		return out
	}
	got := scan()
	if fmt.Sprint(got) != fmt.Sprint(want) {
		env.Violate("C18", "assembled-content-differs", "assembled list yields %v, segments hold %v", got, want)
	}
	var isLive func(unsafe.Pointer) bool
	if mm {
		isLive = ga.IsLive
	}
	check := func(tag string) {
		w := walkSkiplist(sl, cmpIntRaw, isLive)
		for _, p := range w.Problems {
			env.Violate("C14", "walk:"+problemClass(p), "%s: %s", tag, p)
		}
		for _, p := range w.checkStats(sl) {
			env.Violate("C14", problemClass(p), "%s: %s", tag, p)
		}
	}
	check("after Assemble")
	if len(env.Res.Violations) > 0 {
		return
	}
	// the assembled list supports all later operations like an incrementally built one
	barrier := sl.GetAccesBarrier()
	var hist []porcupine.Operation
	nodeID := map[*skiplist.Node]int{}
	idOf := func(n *skiplist.Node) int {
		if id, ok := nodeID[n]; ok {
			return id
		}
		nodeID[n] = len(nodeID) + 1
		return len(nodeID)
	}
	{
		it := sl.NewIterator(cmpIntRaw, sl.MakeBuf())
		for it.SeekFirst(); it.Valid(); it.Next() {
			hist = append(hist, porcupine.Operation{ClientId: 9, Input: slIn{Op: "init", Key: intOf(it.Get())}, Call: 0, Output: slOut{Ok: true, Node: idOf(it.GetNode())}, Return: 0})
		}
		it.Close()
	}
	keysTouched := map[int]bool{}
	for ti, tp := range clientTasks {
		ti, tp := ti, tp
		s.Go(tp.Name, func() {
			buf := sl.MakeBuf()
			for _, op := range tp.Ops {
				s.Yield(SiteHarnessOp)
				k := op.Arg(0)
				keysTouched[k] = true
				in := slIn{Op: op.K, Key: k}
				var out slOut
				s.BeginOp()
				call := s.Stamp()
				switch op.K {
				case "ins":
					n, ok := sl.Insert2(newItem(k), cmp, nil, buf, levelRand(op.Arg(1)), &sl.Stats)
					out.Ok = ok
					if ok {
						out.Node = idOf(n)
					}
				case "lookup":
					tok := barrier.Acquire()
					_, _, found := sl.Lookup(newItem(k), cmp, buf, &sl.Stats)
					barrier.Release(tok)
					out.Ok = found
				case "del":
					tok := barrier.Acquire()
					_, curr, found := sl.Lookup(newItem(k), cmp, buf, &sl.Stats)
					ok := false
					if found {
						ok = sl.DeleteNode2(curr, cmp, buf, &sl.Stats)
					}
					barrier.Release(tok)
					if ok && mm {
						barrier.FlushSession(unsafe.Pointer(curr))
					}
					out.Ok = ok
				}
				ret := s.Stamp()
				s.EndOp()
				env.Logf("%s %s(%d) -> %v [%d..%d]", tp.Name, op.K, k, out.Ok, call, ret)
				hist = append(hist, porcupine.Operation{ClientId: ti, Input: in, Call: call, Output: out, Return: ret})
			}
		})
	}
	if !env.Finish(s.Run(), "") {
		return
	}
	final := scan()
	present := map[int]bool{}
	for i, k := range final {
		present[k] = true
		if i > 0 && final[i-1] >= k {
			env.Violate("C18", "later-scan-not-sorted", "after later operations the list yields %v", final)
		}
	}
	fin := s.Stamp()
	var keys []int
	for k := range keysTouched {
		keys = append(keys, k)
	}
	sort.Ints(keys)
	for _, k := range keys {
		hist = append(hist, porcupine.Operation{ClientId: 8, Input: slIn{Op: "final", Key: k}, Call: fin, Output: slOut{Ok: present[k]}, Return: fin + 1})
	}
	for _, k := range want {
		if !keysTouched[k] && !present[k] {
			env.Violate("C18", "untouched-item-lost", "item %d of the assembled list disappeared although no later operation touched it", k)
		}
	}
	checkLinearizable(env, "C18", slModel, hist)
	check("after later operations")
	env.ProbeN("segments", len(segs))
	env.ProbeN("assembled_items", len(want))
}

// ---- merge iterator -------------------------------------------------------------------

func genMerge(seed uint64, tier string) *Plan {
	r := NewRng(seed, purposePlan)
	p := &Plan{Scenario: "merge", Seed: seed, Knobs: map[string]int{}}
	nl := r.Range(0, 5)
	p.Knobs["nlists"] = nl
	mode := r.Intn(4) // 0 random, 1 disjoint, 2 identical, 3 some empty
	for i := 0; i < nl; i++ {
		tp := TaskPlan{Name: fmt.Sprintf("list%d", i), Phase: 0}
		n := r.Range(0, 10)
		if mode == 3 && r.Bool(0.5) {
			n = 0
		}
		for j := 0; j < n; j++ {
			k := r.Intn(30)
			switch mode {
			case 1:
				k = i*100 + r.Intn(30)
			case 2:
				k = j * 3
			}
			tp.Ops = append(tp.Ops, Op{K: "item", A: []int{k}})
		}
		p.Tasks = append(p.Tasks, tp)
	}
	// cursor program: 0 seekfirst, 1 seek x, 2 next n
	prog := TaskPlan{Name: "cursor", Phase: 1}
	n := r.Range(1, 10)
	for i := 0; i < n; i++ {
		switch x := r.Intn(12); {
		case x < 3:
			prog.Ops = append(prog.Ops, Op{K: "seekfirst"})
		case x < 6:
			prog.Ops = append(prog.Ops, Op{K: "seek", A: []int{r.Range(-1, 40)}})
		case x < 10:
			prog.Ops = append(prog.Ops, Op{K: "next", A: []int{r.Range(1, 6)}})
		case x < 11:
			// the scan owner deletes the item one of the inputs stands on and refreshes the inputs
			prog.Ops = append(prog.Ops, Op{K: "delcur", A: []int{r.Intn(5)}})
		default:
			prog.Ops = append(prog.Ops, Op{K: "refresh"})
		}
	}
	p.Tasks = append(p.Tasks, prog)
	p.Sched = SchedPlan{Strategy: "random", P: 0.05, Seed: seed}
	return p
}

func runMerge(env *Env) {
	plan := env.Plan
	var lists []*skiplist.Skiplist
	var all []int
	var prog []Op
	var keep []*intItem
	defer func() { runtime.KeepAlive(&keep) }()
	for _, tp := range plan.Tasks {
		if tp.Phase == 1 {
			prog = tp.Ops
			continue
		}
		sl := skiplist.New()
		buf := sl.MakeBuf()
		for _, op := range tp.Ops {
			it := &intItem{key: op.Arg(0)}
			keep = append(keep, it)
			if sl.Insert(unsafe.Pointer(it), cmpIntRaw, buf, &sl.Stats) {
				all = append(all, op.Arg(0))
			}
		}
		lists = append(lists, sl)
	}
	sort.Ints(all)
	var iters []*skiplist.Iterator
	for _, sl := range lists {
		iters = append(iters, sl.NewIterator(cmpIntRaw, sl.MakeBuf()))
	}
	mit := skiplist.NewMergeIterator(iters)
	env.Logf("lists=%d union=%v program=%v", len(lists), all, prog)
	pos := -1
	trace := ""
	check := func(step string) bool {
		trace += " " + step
		if pos < 0 {
			return true
		}
		v := mit.Valid()
		if v != (pos < len(all)) {
			env.Violate("C18", "merge-valid-differs", "after%s: Valid()=%v, model index %d of %v", trace, v, pos, all)
			return false
		}
		if v {
			if got := intOf(mit.Get()); got != all[pos] {
				env.Violate("C18", "merge-position-differs", "after%s: at %d, model says %d (index %d of %v)", trace, got, all[pos], pos, all)
				return false
			}
		}
		return true
	}
	for _, op := range prog {
		switch op.K {
		case "seekfirst":
			mit.SeekFirst()
			pos = 0
			if !check("SeekFirst") {
				return
			}
		case "seek":
			x := op.Arg(0)
			probe := &intItem{key: x}
			found := mit.Seek(unsafe.Pointer(probe))
			pos = sort.SearchInts(all, x)
			wantFound := pos < len(all) && all[pos] == x
			if found != wantFound {
				env.Violate("C18", "merge-seek-found-differs", "after%s Seek(%d) returned %v, model says %v", trace, x, found, wantFound)
				return
			}
			if !check(fmt.Sprintf("Seek(%d)", x)) {
				return
			}
		case "next":
			for i := 0; i < op.Arg(0); i++ {
				if pos < 0 || pos >= len(all) {
					break
				}
				mit.Next()
				pos++
				if !check("Next") {
					return
				}
			}
		case "refresh":
			for _, it := range iters {
				it.Refresh()
			}
			trace += " Refresh(inputs)"
		case "delcur":
			// delete the item input i stands on; what the merge iterator yields for the rest
			// of this scan is not specified, a later SeekFirst/Seek must reposition it over
			// the remaining contents
			if len(iters) == 0 {
				break
			}
			i := op.Arg(0) % len(iters)
			if !iters[i].Valid() {
				break
			}
			k := intOf(iters[i].Get())
			if lists[i].Delete(iters[i].Get(), cmpIntRaw, lists[i].MakeBuf(), &lists[i].Stats) {
				for j, x := range all {
					if x == k {
						all = append(all[:j], all[j+1:]...)
						break
					}
				}
				for _, it := range iters {
					it.Refresh()
				}
				pos = -1
				trace += fmt.Sprintf(" Delete(%d under input %d)+Refresh(inputs)", k, i)
			}
		}
	}
	env.Case("sequential_cases", 1)
	env.Case("nontrivial", 1)
	env.Res.Verdict = "quiescent"
}
