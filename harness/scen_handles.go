package nsim

import (
	"fmt"
	"sort"

	"github.com/anishathalye/porcupine"
	"github.com/couchbase/nitro"
	"github.com/couchbase/nitro/skiplist"
)

// Scenario "handles": Open/NewIterator/Close racing the final Close of a
// snapshot (C08).

func init() {
	register(&Scenario{Name: "handles", Props: []string{"C08"}, Gen: genHandles, Run: runHandles})
}

func genHandles(seed uint64, tier string) *Plan {
	r := NewRng(seed, purposePlan)
	p := &Plan{Scenario: "handles", Seed: seed, Knobs: map[string]int{}}
	k := p.Knobs
	k["mm"] = r.Intn(2)
	k["protect"] = 0
	k["kv"] = r.Intn(2)
	k["nkeys"] = r.Range(2, 5)
	nsnaps := r.Range(1, 5)
	k["nsnaps"] = nsnaps
	k["later"] = r.Range(1, 3)
	k["nwriters"] = 1
	// population phases: one writer, sequential
	for ph := 0; ph < nsnaps; ph++ {
		tp := TaskPlan{Name: fmt.Sprintf("w0p%d", ph), Phase: ph}
		n := r.Range(2, 6)
		for j := 0; j < n; j++ {
			key := r.Intn(k["nkeys"])
			if r.Bool(0.65) || ph == 0 {
				tp.Ops = append(tp.Ops, Op{K: "put", A: []int{key}})
			} else {
				tp.Ops = append(tp.Ops, Op{K: "del", A: []int{key}})
			}
		}
		p.Tasks = append(p.Tasks, tp)
	}
	for ph := nsnaps; ph < nsnaps+k["later"]; ph++ {
		tp := TaskPlan{Name: fmt.Sprintf("w0p%d", ph), Phase: ph}
		n := r.Range(1, 4)
		for j := 0; j < n; j++ {
			key := r.Intn(k["nkeys"])
			if r.Bool(0.5) {
				tp.Ops = append(tp.Ops, Op{K: "put", A: []int{key}})
			} else {
				tp.Ops = append(tp.Ops, Op{K: "del", A: []int{key}})
			}
		}
		p.Tasks = append(p.Tasks, tp)
	}
	// handle tasks
	for s := 0; s < nsnaps; s++ {
		nh := r.Range(1, 4)
		for j := 0; j < nh; j++ {
			tp := TaskPlan{Name: fmt.Sprintf("h%d_%d", s, j), Phase: -1}
			n := r.Range(1, 4)
			for x := 0; x < n; x++ {
				tp.Ops = append(tp.Ops, Op{K: []string{"open_close", "open_close", "open_scan", "open_iter", "iter"}[r.Intn(5)], A: []int{s}})
			}
			p.Tasks = append(p.Tasks, tp)
		}
		// the owner's final Close, after a drawn number of scheduling points
		p.Tasks = append(p.Tasks, TaskPlan{Name: fmt.Sprintf("o%d", s), Phase: -1, Ops: []Op{{K: "wait", A: []int{r.Intn(6)}}, {K: "close", A: []int{s}}}})
	}
	// incl. the inside of the collection pass: several last-reference Closes overlap one pass
	stall := []int{nitro.SiteOpenInc, nitro.SiteCloseDec, nitro.SiteCloseRetire, nitro.SiteCloseMove, nitro.SiteCloseGC, nitro.SiteGCTry,
		nitro.SiteGCRelease, nitro.SiteCollectCheck, nitro.SiteCollectStore, nitro.SiteCollectSend}
	p.Sched = GenSched(r, seed, 100*p.NumOps()+200, stall)
	if r.Bool(0.5) {
		k["varkeys"] = 1
	}
	return p
}

type hIn struct {
	Op   string
	Snap int
}

type hOut struct{ Ok bool }

var handleModel = porcupine.Model{
	Partition: func(history []porcupine.Operation) [][]porcupine.Operation {
		m := map[int][]porcupine.Operation{}
		var keys []int
		for _, op := range history {
			k := op.Input.(hIn).Snap
			if _, ok := m[k]; !ok {
				keys = append(keys, k)
			}
			m[k] = append(m[k], op)
		}
		sort.Ints(keys)
		var out [][]porcupine.Operation
		for _, k := range keys {
			out = append(out, m[k])
		}
		return out
	},
	Init: func() interface{} { return 1 },
	Step: func(state, input, output interface{}) (bool, interface{}) {
		st := state.(int)
		in := input.(hIn)
		out := output.(hOut)
		switch in.Op {
		case "open", "newiter":
			if out.Ok {
				return st > 0, st + 1
			}
			return st == 0, st
		case "close", "iterclose":
			return st > 0, st - 1
		}
		return false, st
	},
	Equal: func(a, b interface{}) bool { return a.(int) == b.(int) },
	DescribeOperation: func(input, output interface{}) string {
		return fmt.Sprintf("%s(s%d)->%v", input.(hIn).Op, input.(hIn).Snap, output.(hOut).Ok)
	},
}

func runHandles(env *Env) {
	ne := newNitroEnv(env)
	defer ne.release()
	s := env.S
	plan := env.Plan
	nsnaps := plan.Knob("nsnaps", 1)
	later := plan.Knob("later", 1)
	phaseOps := map[int][]Op{}
	var others []TaskPlan
	for _, tp := range plan.Tasks {
		if tp.Phase >= 0 {
			phaseOps[tp.Phase] = append(phaseOps[tp.Phase], tp.Ops...)
		} else {
			others = append(others, tp)
		}
	}
	var hist []porcupine.Operation
	record := func(client int, op string, snap int, ok bool, call, ret int64) {
		hist = append(hist, porcupine.Operation{ClientId: client, Input: hIn{Op: op, Snap: snap}, Call: call, Output: hOut{Ok: ok}, Return: ret})
		env.Logf("c%d %s(s%d) -> %v [%d..%d]", client, op, snap, ok, call, ret)
	}
	populated := false
	othersDone := 0
	s.Go("coord", func() {
		ne.writers = append(ne.writers, ne.db.NewWriter())
		ne.handles = append(ne.handles, map[int]*skiplist.Node{})
		s.ForceYield(SiteHarnessOp)
		for ph := 0; ph < nsnaps; ph++ {
			for _, op := range phaseOps[ph] {
				ne.execWriterOp("w0", 0, op)
			}
			ne.handles[0] = map[int]*skiplist.Node{}
			ne.newSnapshot(fmt.Sprintf("phase %d", ph))
		}
		populated = true
		s.WaitUntil(func() bool { return othersDone == len(others) })
		// later snapshots must still be collectable
		for ph := nsnaps; ph < nsnaps+later; ph++ {
			for _, op := range phaseOps[ph] {
				s.Yield(SiteHarnessOp)
				ne.execWriterOp("w0", 0, op)
			}
			ne.handles[0] = map[int]*skiplist.Node{}
			rec := ne.newSnapshot(fmt.Sprintf("later %d", ph))
			if rec != nil {
				ne.closeOwner(rec)
			}
		}
	})
	for ci, tp := range others {
		ci, tp := ci, tp
		s.Go(tp.Name, func() {
			s.WaitUntil(func() bool { return populated })
			for _, op := range tp.Ops {
				s.Yield(SiteHarnessOp)
				si := op.Arg(0)
				if op.K != "wait" && si >= len(ne.snaps) {
					continue
				}
				switch op.K {
				case "wait":
					for i := 0; i < op.Arg(0); i++ {
						s.ForceYield(SiteHarnessOp)
					}
				case "close":
					rec := ne.snaps[si]
					s.BeginOp()
					call := s.Stamp()
					rec.snap.Close()
					record(ci, "close", si, true, call, s.Stamp())
					s.EndOp()
					rec.ownerOpen = false
				case "open_close", "open_scan", "open_iter":
					rec := ne.snaps[si]
					s.BeginOp()
					call := s.Stamp()
					ok := rec.snap.Open()
					record(ci, "open", si, ok, call, s.Stamp())
					s.EndOp()
					if !ok {
						continue
					}
					if op.K != "open_close" {
						// (b) a handle obtained by a successful Open pins the snapshot
						s.BeginOp()
						call = s.Stamp()
						it := rec.snap.NewIterator()
						record(ci, "newiter", si, it != nil, call, s.Stamp())
						s.EndOp()
						if it == nil {
							env.Violate("C08", "newiterator-nil-through-held-handle", "%s: NewIterator returned nil although the caller holds a handle obtained by Open", tp.Name)
						} else {
							var got [][]byte
							for it.SeekFirst(); it.Valid(); it.Next() {
								got = append(got, append([]byte{}, it.Get()...))
								if len(got) > 10000 {
									break
								}
							}
							if d := diffExact(got, rec.ms.content); d != "" {
								env.Violate("C08", "scan-through-held-handle-differs", "%s: snapshot %d scanned through a handle obtained by a successful Open: %s", tp.Name, si, d)
							}
							s.BeginOp()
							call = s.Stamp()
							it.Close()
							record(ci, "iterclose", si, true, call, s.Stamp())
							s.EndOp()
						}
					}
					s.Yield(SiteHarnessOp)
					s.BeginOp()
					call = s.Stamp()
					rec.snap.Close()
					record(ci, "close", si, true, call, s.Stamp())
					s.EndOp()
				case "iter":
					rec := ne.snaps[si]
					s.BeginOp()
					call := s.Stamp()
					it := rec.snap.NewIterator()
					record(ci, "newiter", si, it != nil, call, s.Stamp())
					s.EndOp()
					if it == nil {
						continue
					}
					var got [][]byte
					for it.SeekFirst(); it.Valid(); it.Next() {
						got = append(got, append([]byte{}, it.Get()...))
						if len(got) > 10000 {
							break
						}
					}
					if d := diffExact(got, rec.ms.content); d != "" {
						env.Violate("C08", "scan-through-held-handle-differs", "%s: snapshot %d scanned through an iterator obtained from NewIterator: %s", tp.Name, si, d)
					}
					s.BeginOp()
					call = s.Stamp()
					it.Close()
					record(ci, "iterclose", si, true, call, s.Stamp())
					s.EndOp()
				}
			}
			othersDone++
		})
	}
	if !env.Finish(s.Run(), "C08") {
		return
	}
	checkLinearizable(env, "C08", handleModel, hist)
	// every snapshot is fully released now (each holder closed what it opened)
	for _, r := range ne.snaps {
		r.ms.closed = true
	}
	// (c) retired exactly once; the collector makes progress on all later snapshots.
	// The later snapshots were closed one after the other with nothing else going on:
	// the last of those Closes must have collected everything, without a forced GC()
	if later > 0 && ne.lastCloseAlone() {
		if m := ne.checkQuiescent(false, "after the later snapshots were closed"); m != "" {
			env.Violate("C08", "later-close-did-not-collect", "every handle is closed and the last Close ran alone, yet: %s", m)
		}
	}
	s.Go("gc", func() { ne.db.GC() })
	if !env.Finish(s.Run(), "C08") {
		return
	}
	if snaps := ne.db.GetSnapshots(); len(snaps) != 0 {
		env.Violate("C08", "snapshot-not-retired", "GetSnapshots() lists %d snapshots after every handle was closed", len(snaps))
	}
	if m := ne.checkQuiescent(false, "after all handles closed and GC()"); m != "" {
		env.Violate("C08", "collector-cannot-progress", "after every handle was closed and GC() was forced: %s", m)
	}
	if len(env.Res.Violations) > 0 {
		return // Nitro.Close would wait for the un-retired snapshot forever
	}
	ne.closing = true
	s.Go("close", func() { ne.db.Close() })
	if !env.Finish(s.Run(), "C08") {
		return
	}
	env.ProbeN("handle_ops", len(hist))
}
