package nsim

import (
	"bytes"
	"encoding/binary"
	"encoding/json"
	"fmt"
	"os"
	"path/filepath"
	"sort"
	"unsafe"

	"github.com/couchbase/nitro"
	"github.com/couchbase/nitro/skiplist"
)

// Disk-level scenarios: backup (C05), damage (C11), wfault / crashimg (C12),
// codec (C19).

func init() {
	props := []string{"C05", "C11", "C12", "C19", "C07", "C14"}
	for _, v := range []string{"backup", "backup_race", "damage", "wfault", "crashimg"} {
		v := v
		register(&Scenario{Name: v, Props: props, Gen: func(seed uint64, tier string) *Plan { return genDisk(v, seed, tier) }, Run: runDisk})
	}
	register(&Scenario{Name: "codec", Props: []string{"C19"}, Gen: genCodec, Run: runCodec})
}

var diskStallSites = []int{nitro.SiteGCWDelta, nitro.SiteGCWUnlink, nitro.SiteDeltaSend, nitro.SiteDeltaRecv, nitro.SiteCheckpoint,
	nitro.SiteVisitorItem, nitro.SiteVisitorPivot, nitro.SiteCollectSend, SiteHarnessIO, nitro.SiteLoadRecv, nitro.SiteLoadSend}

func genDisk(variant string, seed uint64, tier string) *Plan {
	r := NewRng(seed, purposePlan)
	p := &Plan{Scenario: variant, Seed: seed, Knobs: map[string]int{}}
	k := p.Knobs
	k["mm"] = r.Intn(2)
	k["protect"] = 0
	k["kv"] = r.Intn(2)
	k["cmpimpl"] = r.Intn(2)
	k["delta"] = r.Intn(2)
	nkeys := r.Range(2, 10)
	nw := r.Range(1, 3)
	nph := r.Range(1, 4)
	during := r.Range(0, 3)
	maxOps := 10
	k["shards"] = []int{1, 2, 3, 4, 16, 33}[r.Intn(6)]
	k["blocksize"] = []int{16, 64, 512, 4096, 512 * 1024}[r.Intn(5)]
	k["store_conc"] = r.Range(1, 8)
	k["load_conc"] = []int{1, 1, 2, 3, 8}[r.Intn(5)]
	k["store_snap"] = r.Intn(8)
	k["restored_phases"] = r.Range(0, 2)
	k["visitor_refresh"] = []int{-1, 0, 1, 3}[r.Intn(4)]
	switch variant {
	case "backup_race":
		// the visitor of a delta backup is stalled on an item while writers delete it and
		// snapshot churn lets the collector unlink and free it (user-managed memory,
		// iterator refresh every item or two): the window in which only the iterator's
		// own barrier session keeps its current item alive
		k["mm"] = 1
		k["delta"] = 1
		k["visitor_refresh"] = r.Range(1, 2)
		nkeys = r.Range(2, 6)
		nw = r.Range(1, 3)
		nph = r.Range(1, 2)
		during = r.Range(2, 4)
		k["shards"] = r.Range(1, 3)
		k["store_conc"] = r.Range(1, 2)
		k["store_snap"] = 0
		k["restored_phases"] = 0
		k["race"] = 1
	case "damage":
		// small backups so that the complete single-fault space is affordable
		nkeys = r.Range(0, 6)
		nw = r.Range(1, 2)
		nph = r.Range(1, 3)
		during = 0
		if k["delta"] == 1 && r.Bool(0.6) {
			// deletes and snapshot churn during the backup put records into the delta files
			during = r.Range(1, 2)
		}
		maxOps = 6
		k["shards"] = []int{1, 2, 3, 16}[r.Intn(4)]
		k["load_conc"] = []int{1, 2, 8}[r.Intn(3)]
		k["restored_phases"] = 0
		// user-managed memory only: a damaged length prefix asks for up to 4 GiB, which
		// the guard allocator maps lazily; the Go heap would commit and zero it
		k["mm"] = 1
		k["blocksize"] = []int{16, 64, 512, 4096}[r.Intn(4)] // 512 KiB x shards of buffer per load is too expensive for an enumeration
		k["multi"] = r.Range(0, 12) // sampled multi-shard damages
		if tier == "thorough" {
			k["multi"] = r.Range(4, 40)
		}
		k["kvlen"] = r.Intn(2)
	case "wfault":
		nkeys = r.Range(1, 8)
		during = r.Intn(2)
		k["restored_phases"] = 0
		k["fault_budget"] = r.Range(8, 60) // number of fault points explored per plan (sampled when the space is larger)
	case "crashimg":
		nkeys = r.Range(1, 8)
		during = r.Intn(2)
		k["restored_phases"] = 0
		k["shards"] = []int{1, 2, 3, 4}[r.Intn(4)]
	}
	if (variant == "damage" || variant == "crashimg" || variant == "wfault") && k["delta"] == 1 && r.Bool(0.6) {
		// make the delta files matter: snapshot items are deleted and collected while the
		// (stalled) backup runs, so that they exist only in the delta files
		k["race"] = 1
		k["mm"] = 1
		k["store_snap"] = 0
		k["store_conc"] = 1
		k["shards"] = r.Range(1, 3)
		if nkeys < 3 {
			nkeys = r.Range(3, 6)
		}
		if during < 2 {
			during = 2
		}
	}
	if nkeys == 0 {
		nkeys = 1
		k["empty"] = 1
	}
	k["nkeys"] = nkeys
	k["nwriters"] = nw
	k["nphases"] = nph
	k["during"] = during
	genWriterOp := func(ph, wi int) Op {
		key := r.Intn(nkeys)
		if nw > 1 {
			for try := 0; try < 20 && (key+ph)%nw != wi; try++ {
				key = r.Intn(nkeys)
			}
			if (key+ph)%nw != wi {
				return Op{K: "nop"}
			}
		}
		x := r.Intn(10)
		if (variant == "backup_race" || k["race"] == 1) && ph >= nph {
			x = 3 + r.Intn(7) // mostly deletes while the backup runs
		}
		switch {
		case x < 6:
			return Op{K: "put", A: []int{key}}
		case x < 9:
			return Op{K: []string{"del", "del2", "delnode"}[r.Intn(3)], A: []int{key}}
		default:
			return Op{K: "get", A: []int{key}}
		}
	}
	for ph := 0; ph < nph+during; ph++ {
		for wi := 0; wi < nw; wi++ {
			tp := TaskPlan{Name: fmt.Sprintf("w%dp%d", wi, ph), Phase: ph}
			n := r.Range(1, maxOps)
			if k["empty"] == 1 {
				n = 0
			}
			for j := 0; j < n; j++ {
				op := genWriterOp(ph, wi)
				if ph == 0 && r.Bool(0.7) && op.K != "nop" {
					op.K = "put"
				}
				tp.Ops = append(tp.Ops, op)
			}
			p.Tasks = append(p.Tasks, tp)
		}
	}
	for ph := 0; ph < k["restored_phases"]; ph++ {
		tp := TaskPlan{Name: fmt.Sprintf("x0p%d", ph), Phase: 100 + ph}
		n := r.Range(1, 8)
		for j := 0; j < n; j++ {
			op := Op{K: []string{"put", "put", "del", "get", "del2"}[r.Intn(5)], A: []int{r.Intn(nkeys + 1)}}
			tp.Ops = append(tp.Ops, op)
		}
		p.Tasks = append(p.Tasks, tp)
	}
	// closers running during the backup
	tp := TaskPlan{Name: "c0", Phase: -1}
	ncl := r.Range(0, 3)
	if variant == "backup_race" || k["race"] == 1 {
		ncl = r.Range(3, 8)
	}
	for j := 0; j < ncl; j++ {
		tp.Ops = append(tp.Ops, Op{K: "close", A: []int{r.Intn(8)}})
	}
	p.Tasks = append(p.Tasks, tp)
	p.Sched = GenSched(r, seed, 150*p.NumOps()+500, diskStallSites)
	if variant == "backup_race" {
		p.Sched.Strategy = "random"
		p.Sched.P = []float64{0.02, 0.1, 0.3}[r.Intn(3)]
		p.Sched.Bias = []string{"eager", "eager", "fair"}[r.Intn(3)]
		p.Sched.Disabled = nil
		p.Sched.StallSite = []int{nitro.SiteVisitorItem, SiteHarnessCallback, nitro.SiteIterRefresh}[r.Intn(3)]
		p.Sched.StallNth = r.Range(1, 5)
		p.Sched.StallLen = r.Range(200, 4000)
	}
	if variant == "damage" {
		// the schedule dimension of a load is small; keep the enumeration cheap
		p.Sched.Strategy = "random"
		p.Sched.P = 0.02
		p.Sched.StallLen = 0
	}
	if k["race"] == 1 && variant != "backup_race" {
		p.Sched.Strategy = "random"
		p.Sched.P = []float64{0.02, 0.1}[r.Intn(2)]
		p.Sched.Bias = "eager"
		p.Sched.Disabled = nil
		p.Sched.StallSite = []int{nitro.SiteVisitorItem, SiteHarnessCallback}[r.Intn(2)]
		p.Sched.StallNth = r.Range(1, 3)
		p.Sched.StallLen = r.Range(300, 3000)
	}
	// drawn last (the rest of the plan is what it was before this knob existed)
	if (variant == "backup" || variant == "backup_race") && r.Bool(0.3) {
		k["reuse_dir"] = 1 // the backup directory already holds a backup of an older snapshot
	}
	if r.Bool(0.5) {
		k["varkeys"] = 1 // keys of 4..7 bytes instead of 4
	}
	return p
}

// diskRun carries the state of one disk-level run.
type diskRun struct {
	env     *Env
	ne      *nitroEnv
	dir     string
	stored  *snapRec
	content [][]byte
	keys    []int
	err     error
	reused  bool // the directory held an earlier backup when the store began
	// set by the damage enumeration when the damaged shard files still have the
	// checksums recorded in the manifest although their content differs
	collision string
}

func (ne *nitroEnv) runPhase(ph int, tasks []TaskPlan, nw int) {
	s := ne.s
	done := 0
	for _, tp := range tasks {
		tp := tp
		var wi, x int
		fmt.Sscanf(tp.Name, "w%dp%d", &wi, &x)
		wi = wi % nw
		s.Go(tp.Name, func() {
			for _, op := range tp.Ops {
				s.Yield(SiteHarnessOp)
				ne.execWriterOp(tp.Name, wi, op)
			}
			done++
		})
	}
	n := len(tasks)
	s.WaitUntil(func() bool { return done == n })
	for wi := range ne.handles {
		ne.handles[wi] = map[int]*skiplist.Node{}
	}
	ne.newSnapshot(fmt.Sprintf("phase %d", ph))
}

func runDisk(env *Env) {
	plan := env.Plan
	oldBS, oldShards := nitro.DiskBlockSize, nitro.VerifShards
	nitro.DiskBlockSize = plan.Knob("blocksize", 512*1024)
	nitro.VerifShards = plan.Knob("shards", 2)
	defer func() { nitro.DiskBlockSize, nitro.VerifShards = oldBS, oldShards }()

	ne := newNitroEnv(env)
	defer ne.release()
	s := env.S
	nw := plan.Knob("nwriters", 1)
	nph := plan.Knob("nphases", 1)
	during := plan.Knob("during", 0)
	variant := plan.Scenario
	phaseTasks := map[int][]TaskPlan{}
	var closerOps []Op
	for _, tp := range plan.Tasks {
		if tp.Phase >= 0 {
			phaseTasks[tp.Phase] = append(phaseTasks[tp.Phase], tp)
		} else {
			closerOps = append(closerOps, tp.Ops...)
		}
	}
	dr := &diskRun{env: env, ne: ne, dir: filepath.Join(env.TempDir(), "backup")}
	var ds *diskSim
	if variant == "wfault" || variant == "crashimg" || variant == "backup" || variant == "backup_race" {
		// in the backup variants the wrapper injects no fault: it only makes every write
		// call below bufio a scheduling point (file writers run in several visitor workers)
		ds = &diskSim{env: env, root: dr.dir}
		if variant == "crashimg" {
			ds.capture = true
			ds.imageDir = env.TempDir()
		}
	}
	storeDone := false
	s.Go("coord", func() {
		for i := 0; i < nw; i++ {
			ne.writers = append(ne.writers, ne.db.NewWriter())
			ne.handles = append(ne.handles, map[int]*skiplist.Node{})
			s.ForceYield(SiteHarnessOp)
		}
		for ph := 0; ph < nph; ph++ {
			ne.runPhase(ph, phaseTasks[ph], nw)
		}
		rec := ne.pickOpen(plan.Knob("store_snap", 0))
		if rec == nil || !ne.acquire(rec) {
			storeDone = true
			return
		}
		dr.stored = rec
		dr.content = rec.ms.content
		dr.keys = rec.ms.keys
		if plan.Knob("reuse_dir", 0) == 1 {
			// the directory already holds a complete backup of another (older) snapshot
			if first := ne.pickOpen(0); first != nil && first != rec && ne.acquire(first) {
				s.BeginOp()
				perr := ne.db.StoreToDisk(dr.dir, first.snap, 1, nil)
				s.EndOp()
				first.refs--
				if first.refs == 0 {
					first.ms.closed = true
				}
				env.Logf("earlier StoreToDisk of snapshot %d into the same directory -> %v", first.idx, perr)
				if perr != nil {
					env.Violate("C05", "store-failed-without-fault", "StoreToDisk (earlier backup into the same directory) returned %v although no I/O fault was injected", perr)
				}
				dr.reused = true
				env.Probe("backup_dir_reused")
			}
		}
		if ds != nil && variant == "wfault" {
			// the fault point is chosen by the root per iteration; first run is fault free (measure)
		}
		s.Go("store", func() {
			var undo func()
			if ds != nil {
				undo = ds.install()
			}
			s.BeginOp()
			dr.err = ne.db.StoreToDisk(dr.dir, rec.snap, plan.Knob("store_conc", 1), func(e *nitro.ItemEntry) {
				s.Yield(SiteHarnessCallback)
			})
			s.EndOp()
			if undo != nil {
				undo()
			}
			// StoreToDisk consumed the handle it was given
			rec.refs--
			if rec.refs == 0 {
				rec.ms.closed = true
			}
			storeDone = true
			env.Logf("StoreToDisk -> %v", dr.err)
		})
		// mutation, snapshot churn and closing continue during the backup
		s.Go("c0", func() {
			for _, op := range closerOps {
				s.Yield(SiteHarnessOp)
				if r := ne.pickOpen(op.Arg(0)); r != nil && (r != rec || plan.Knob("delta", 0) == 1 || true) {
					ne.closeOwner(r)
				}
			}
		})
		for ph := nph; ph < nph+during; ph++ {
			ne.runPhase(ph, phaseTasks[ph], nw)
		}
		s.WaitUntil(func() bool { return storeDone })
		// close everything that is left on the source instance
		for _, r := range ne.snaps {
			ne.closeOwner(r)
		}
	})
	if !env.Finish(s.Run(), "C05") {
		return
	}
	if dr.stored == nil {
		return
	}
	switch variant {
	case "backup", "backup_race":
		dr.checkBackup()
	case "damage":
		dr.checkDamage()
	case "wfault":
		dr.checkWriteFaults(ds)
	case "crashimg":
		dr.checkCrashImages(ds)
	}
	if len(env.Res.Violations) == 0 {
		// a failed LoadFromDisk does not release what it had built: the allocator-wide
		// leak oracle (C07) is only meaningful in the fault-free backup variant
		ne.allocShared = variant != "backup" && variant != "backup_race"
		ne.finalStages()
	}
}

// loadResult is the outcome of one LoadFromDisk in a fresh instance.
type loadResult struct {
	db      *nitro.Nitro
	ne      *nitroEnv
	snap    *nitro.Snapshot
	err     error
	verdict Verdict
	panicV  string
	items   [][]byte
}

// load runs LoadFromDisk(dir) into a fresh instance with the same
// configuration as a simulator task and scans the result.
func (dr *diskRun) load(dir string, tag string) *loadResult {
	env, s := dr.env, dr.env.S
	lr := &loadResult{}
	ne2 := &nitroEnv{env: env, s: s, model: NewMVModel(), nodeID: map[*skiplist.Node]int{}, okDel: map[int]int{},
		mm: dr.ne.mm, kv: dr.ne.kv, nkeys: dr.ne.nkeys + 1, ga: dr.ne.ga}
	ne2.cfg = ne2.makeConfig()
	ne2.db = nitro.NewWithConfig(ne2.cfg)
	lr.ne, lr.db = ne2, ne2.db
	done := false
	s.Go("load."+tag, func() {
		defer func() {
			if r := recover(); r != nil {
				lr.panicV = fmt.Sprint(r)
				done = true
			}
		}()
		s.BeginOp()
		lr.snap, lr.err = ne2.db.LoadFromDisk(dir, env.Plan.Knob("load_conc", 1), func(e *nitro.ItemEntry) {
			s.Yield(SiteHarnessCallback)
		})
		s.EndOp()
		done = true
	})
	bad0 := 0
	if ne2.ga != nil {
		bad0 = ne2.ga.BadFrees
	}
	lr.verdict = s.Run()
	_ = done
	if ne2.ga != nil && ne2.ga.BadFrees > bad0 {
		// a real allocator aborts the process on a double free: the load "panics"
		env.Violate("C11", "load-frees-block-twice", "LoadFromDisk(%s) returned a block to the allocator twice (%d bad frees); under a real allocator the process aborts", tag, ne2.ga.BadFrees-bad0)
	}
	if lr.verdict == VQuiescent && lr.panicV == "" && lr.err == nil && lr.snap != nil {
		it := lr.snap.NewIterator()
		if it != nil {
			for it.SeekFirst(); it.Valid(); it.Next() {
				lr.items = append(lr.items, append([]byte{}, it.Get()...))
				if len(lr.items) > 100000 {
					break
				}
			}
			it.Close()
		}
	}
	return lr
}

// discard closes a restored instance (best effort; used by the enumerations).
func (lr *loadResult) discard(env *Env) {
	if lr.verdict != VQuiescent || lr.panicV != "" {
		env.S.Abandon()
		return
	}
	s := env.S
	lr.ne.closing = true
	s.Go("discard", func() {
		if lr.snap != nil {
			lr.snap.Close()
		}
		lr.db.Close()
	})
	if v := s.Run(); v != VQuiescent {
		s.Abandon()
	}
}

// ---- C05 -----------------------------------------------------------------------------

func (dr *diskRun) checkBackup() {
	env, s := dr.env, dr.env.S
	if dr.err != nil {
		env.Violate("C05", "store-failed-without-fault", "StoreToDisk returned %v although no I/O fault was injected", dr.err)
		return
	}
	// C19 through files: independent parser, framing, terminator, checksums
	data, delta, problems := backupContent(dr.dir, dr.reused)
	for _, p := range problems {
		env.Violate("C19", "backup-file-format", "independent reader of %s: %s", dr.dir, p)
	}
	env.ProbeN("delta_records_written", len(delta))
	inData := map[string]bool{}
	for _, b := range data {
		inData[string(b)] = true
	}
	for _, b := range delta {
		if !inData[string(b)] {
			env.Probe("item_only_in_delta")
		} else {
			env.Probe("item_in_data_and_delta")
		}
	}
	lr := dr.load(dr.dir, "restore")
	if !env.Finish(lr.verdict, "C11") {
		return
	}
	if lr.panicV != "" {
		env.Violate("C05", "load-panic", "LoadFromDisk of a successfully written backup panicked: %s", lr.panicV)
		return
	}
	if lr.err != nil {
		env.Violate("C05", "load-failed", "StoreToDisk returned nil but LoadFromDisk returned %v", lr.err)
		return
	}
	if d := diffExact(lr.items, dr.content); d != "" {
		env.Violate("C05", "restored-content-differs", "snapshot %d (sn %d) stored with delta=%d shards=%d; restored: %s", dr.stored.idx, dr.stored.ms.sn, env.Plan.Knob("delta", 0), env.Plan.Knob("shards", 0), d)
	}
	if c := lr.snap.Count(); int(c) != len(dr.content) {
		env.Violate("C05", "restored-count-differs", "restored Count()=%d, stored snapshot had %d items", c, len(dr.content))
	}
	if env.Plan.Knob("delta", 0) == 1 {
		// every delta record is either restored or rejected as a duplicate
		var restored, failed uint64 = lr.db.DeltaRestored, lr.db.DeltaRestoreFailed
		if int(restored+failed) != len(delta) {
			env.Violate("C05", "delta-accounting", "DeltaRestored=%d + DeltaRestoreFailed=%d but %d delta records were written", restored, failed, len(delta))
		}
	}
	// C19: a reader given the older format version decodes files framed in that format
	dr.checkVersion0()
	// C14: structure after restore
	ne2 := lr.ne
	// the restored instance is described by a model initialised with the stored content
	for i, b := range dr.content {
		v := &mvVersion{key: dr.keys[i], val: b, born: 0}
		ne2.model.live[dr.keys[i]] = v
		ne2.model.versions = append(ne2.model.versions, v)
	}
	ms := ne2.model.NewSnapshot()
	rec := &snapRec{idx: 0, snap: lr.snap, ms: ms, ownerOpen: true, refs: 1}
	ne2.snaps = append(ne2.snaps, rec)
	_, w := ne2.physicalSet()
	for _, p := range w.Problems {
		env.Violate("C14", "walk:"+problemClass(p), "after restore: %s", p)
	}
	for _, p := range ne2.storeStatsProblems(w) {
		env.Violate("C14", problemClass(p), "after restore: %s", p)
	}
	// the restored instance obeys C02 afterwards
	nrp := env.Plan.Knob("restored_phases", 0)
	var rtasks []TaskPlan
	for _, tp := range env.Plan.Tasks {
		if tp.Phase >= 100 {
			rtasks = append(rtasks, tp)
		}
	}
	s.Go("rcoord", func() {
		ne2.writers = append(ne2.writers, ne2.db.NewWriter())
		ne2.handles = append(ne2.handles, map[int]*skiplist.Node{})
		s.ForceYield(SiteHarnessOp)
		for ph := 0; ph < nrp && ph < len(rtasks); ph++ {
			for _, op := range rtasks[ph].Ops {
				s.Yield(SiteHarnessOp)
				ne2.execWriterOp("x0", 0, op)
			}
			ne2.handles[0] = map[int]*skiplist.Node{}
			ne2.newSnapshot(fmt.Sprintf("restored phase %d", ph))
		}
		// cursor positioning on the restored instance (restored items carry bornSn 0)
		for si := range ne2.snaps {
			for k := -1; k <= ne2.nkeys; k++ {
				ne2.execReaderOp("rr", Op{K: "seekscan", A: []int{si, k, 0}})
			}
		}
		for _, r := range ne2.snaps {
			ne2.closeOwner(r)
		}
	})
	if !env.Finish(s.Run(), "C05") {
		return
	}
	if len(env.Res.Violations) == 0 {
		ne2.finalStagesShared()
	}
}

// finalStagesShared runs the quiescent oracles and Close for an instance that
// shares the guard allocator with another instance (allocator-wide checks are
// done by the owner's finalStages).
func (ne *nitroEnv) finalStagesShared() {
	env, s := ne.env, ne.s
	if m := ne.checkQuiescent(true, "restored instance, all snapshots closed"); m != "" {
		s.Go("gc2", func() { ne.db.GC() })
		if !env.Finish(s.Run(), "C06") {
			return
		}
		if m2 := ne.checkQuiescent(false, "restored instance after forced GC"); m2 != "" {
			env.Violate("C06", "garbage-stranded", "restored instance: %s", m2)
		}
	}
	ne.closing = true
	s.Go("close2", func() { ne.db.Close() })
	env.Finish(s.Run(), "C07")
}

// ---- C11 -----------------------------------------------------------------------------

func (dr *diskRun) judgeLoad(lr *loadResult, what string) {
	env := dr.env
	switch {
	case lr.verdict == VHang:
		env.Violate("C11", "load-hangs", "%s: LoadFromDisk never returns; blocked: %v", what, env.S.Describe())
	case lr.verdict != VQuiescent:
		env.Res.Inconclusive = lr.verdict.String()
	case lr.panicV != "":
		env.Violate("C11", "load-panics/"+panicClass(lr.panicV), "%s: LoadFromDisk panicked: %s", what, lr.panicV)
	case lr.err != nil:
		// detected
	default:
		if d := diffExact(lr.items, dr.content); d != "" {
			cause := "different-items"
			if len(lr.items) == 0 {
				cause = "empty-snapshot"
			} else if len(lr.items) < len(dr.content) {
				cause = "items-missing"
			} else if len(lr.items) > len(dr.content) {
				cause = "extra-items"
			}
			if dr.collision != "" {
				// every file the loader read has exactly the checksum recorded for it
				// although the content differs: the XOR-of-CRC32 checksum cannot tell them apart
				env.Violate("C11", "silent-wrong/xor-of-crc32-checksum-collision", "%s: LoadFromDisk returned nil error and a different snapshot: %s; %s", what, dr.collision, d)
				return
			}
			env.Violate("C11", "silent-wrong/"+cause+"/"+damageClass(what), "%s: LoadFromDisk returned nil error and a different snapshot: %s", what, d)
		} else if c := lr.snap.Count(); int(c) != len(dr.content) {
			env.Violate("C11", "silent-wrong/count", "%s: Count()=%d, stored %d", what, c, len(dr.content))
		}
	}
}

// damageClass names the damaged file kind (part of the violation signature).
func damageClass(what string) string {
	for _, k := range []string{"data/files.json", "data/checksums.json", "delta/files.json", "delta/checksums.json", "nitro.json", "data/shard", "delta/shard"} {
		if indexOf(what, k) >= 0 {
			return k
		}
	}
	return "other"
}

func (dr *diskRun) probeDelta() {
	data, delta, _ := backupContent(dr.dir)
	inData := map[string]bool{}
	for _, b := range data {
		inData[string(b)] = true
	}
	only := 0
	for _, b := range delta {
		if !inData[string(b)] {
			only++
		}
	}
	dr.env.ProbeN("delta_records_written", len(delta))
	dr.env.ProbeN("item_only_in_delta", only)
	if only > 0 {
		dr.env.Probe("backups_needing_their_delta_files")
	}
}

func (dr *diskRun) checkDamage() {
	env := dr.env
	if dr.err != nil {
		env.Violate("C05", "store-failed-without-fault", "StoreToDisk returned %v although no I/O fault was injected", dr.err)
		return
	}
	dr.probeDelta()
	base := env.TempDir()
	dmgs := allSingleDamages(dr.dir)
	n, detected, harmless, skipped := 0, 0, 0, 0
	work := filepath.Join(base, "work")
	copyDir(dr.dir, work)
	restore := func(ds []damage) {
		// put the damaged files back (only they changed)
		for _, d := range ds {
			if b, err := os.ReadFile(filepath.Join(dr.dir, d.File)); err == nil {
				os.WriteFile(filepath.Join(work, d.File), b, 0644)
			}
		}
	}
	tryOne := func(ds []damage) {
		defer restore(ds)
		what := ""
		for _, d := range ds {
			if err := applyDamage(work, d); err != nil {
				skipped++
				return
			}
			what += d.String() + "; "
		}
		lr := dr.load(work, "dmg")
		nv := len(env.Res.Violations)
		dr.collision = checksumsCannotTell(work)
		dr.judgeLoad(lr, what)
		n++
		env.FaultFired("damage_" + ds[0].Kind)
		if lr.err != nil {
			detected++
		} else if len(env.Res.Violations) == nv {
			harmless++
		}
		lr.discard(env)
	}
	only := env.Plan.Knob("only", -1)
	for i, d := range dmgs {
		if only >= 0 && i != only {
			continue
		}
		env.Hint = map[string]int{"only": i}
		tryOne([]damage{d})
		env.Hint = nil
		if env.Res.Inconclusive != "" {
			return
		}
	}
	// sampled multi-shard combinations (k shard files damaged at once, in particular k >= load concurrency)
	var shardFiles []string
	for _, f := range listFiles(dr.dir) {
		if isDataShard(f) || isDeltaShard(f) {
			shardFiles = append(shardFiles, f)
		}
	}
	r := NewRng(env.Plan.Seed, purposeFault)
	for m := 0; m < env.Plan.Knob("multi", 0) && len(shardFiles) >= 2; m++ {
		kk := r.Range(2, len(shardFiles))
		perm := append([]string{}, shardFiles...)
		for i := range perm {
			j := i + r.Intn(len(perm)-i)
			perm[i], perm[j] = perm[j], perm[i]
		}
		var ds []damage
		for _, f := range perm[:kk] {
			fi, err := os.Stat(filepath.Join(dr.dir, f))
			if err != nil || fi.Size() == 0 {
				continue
			}
			kind := []string{"xor01", "trunc", "setff", "remove"}[r.Intn(4)]
			ds = append(ds, damage{f, kind, r.Intn(int(fi.Size()))})
		}
		if len(ds) >= 2 && (only < 0 || only == 1000000+m) {
			env.Hint = map[string]int{"only": 1000000 + m}
			tryOne(ds)
			env.Hint = nil
			env.Probe("multi_shard_damages")
		}
	}
	env.Case("evaluations", n)
	env.Case("distinct", n)
	env.Case("nontrivial", 1)
	env.ProbeN("damage_detected", detected)
	env.ProbeN("damage_harmless_exact", harmless)
	env.ProbeN("damage_skipped_no_change", skipped)
	env.Logf("damages=%d detected=%d harmless=%d", n, detected, harmless)
}

// ---- C12 (a): write faults ---------------------------------------------------------------

// checkWriteFaults: the first StoreToDisk of the run was fault free and
// measured the write-call and byte space; now the same snapshot is stored
// again and again with one fault each.
func (dr *diskRun) checkWriteFaults(measure *diskSim) {
	env, s := dr.env, dr.env.S
	if dr.err != nil {
		env.Violate("C05", "store-failed-without-fault", "StoreToDisk returned %v although no I/O fault was injected", dr.err)
		return
	}
	total, calls, opens, closes := measure.written, measure.calls, measure.opens, measure.closes
	var faults []ioFault
	for b := 0; b <= total; b++ {
		faults = append(faults, ioFault{Kind: "enospc", N: b})
	}
	for c := 1; c <= calls; c++ {
		faults = append(faults, ioFault{Kind: "eio", N: c})
		faults = append(faults, ioFault{Kind: "short", N: c, K: c})
	}
	for o := 1; o <= opens; o++ {
		faults = append(faults, ioFault{Kind: "openfail", N: o})
	}
	for c := 1; c <= closes; c++ {
		faults = append(faults, ioFault{Kind: "closefail", N: c})
	}
	// the complete space for small backups, a seeded sample otherwise
	budget := env.Plan.Knob("fault_budget", 40)
	r := NewRng(env.Plan.Seed, purposeFault)
	if len(faults) > budget {
		for i := range faults {
			j := i + r.Intn(len(faults)-i)
			faults[i], faults[j] = faults[j], faults[i]
		}
		faults = faults[:budget]
	} else {
		env.Probe("fault_space_covered_completely")
	}
	// a fresh source instance holding exactly the stored content
	n := 0
	onlyF := env.Plan.Knob("only_fault", -1)
	for fi, f := range faults {
		if onlyF >= 0 && fi != onlyF {
			continue
		}
		env.Hint = map[string]int{"only_fault": fi}
		single := fi%2 == 1 // every other failing backup holds the only handle of its snapshot
		src := dr.cloneSource(single)
		if src == nil {
			return
		}
		if single {
			src.lr.snap = nil
		}
		dir := filepath.Join(env.TempDir(), "b")
		ds := &diskSim{env: env, root: dir, fault: f}
		var err error
		s.Go("store.f", func() {
			undo := ds.install()
			defer undo()
			s.BeginOp()
			err = src.db.StoreToDisk(dir, src.snap, env.Plan.Knob("store_conc", 1), nil)
			s.EndOp()
		})
		if v := s.Run(); v != VQuiescent {
			env.Res.Inconclusive = v.String()
			return
		}
		n++
		what := fmt.Sprintf("fault %s(%d)", f.Kind, f.N)
		if !ds.fired {
			env.Probe("fault_not_reached")
		}
		if err == nil {
			lr := dr.load(dir, "wf")
			bad := ""
			switch {
			case lr.verdict != VQuiescent:
				bad = "load does not return (" + lr.verdict.String() + ")"
			case lr.panicV != "":
				bad = "load panics: " + lr.panicV
			case lr.err != nil:
				bad = fmt.Sprintf("LoadFromDisk returns %v", lr.err)
			default:
				bad = diffExact(lr.items, dr.content)
			}
			if bad != "" {
				env.Violate("C12", "success-reported-for-unrestorable-backup/"+f.Kind, "%s fired=%v blocksize=%d: StoreToDisk returned nil, but: %s", what, ds.fired, env.Plan.Knob("blocksize", 0), bad)
			}
			lr.discard(env)
		} else {
			env.Probe("store_error_reported")
			if single && !dr.collectorWorksAfterFailedBackup(src, what) {
				return
			}
		}
		src.lr.discard(env)
		os.RemoveAll(dir)
	}
	env.Case("evaluations", n)
	env.Case("distinct", n)
	env.Case("nontrivial", 1)
}

// collectorWorksAfterFailedBackup (C06): a backup that failed, having held the only
// handle of its snapshot, leaves the collector able to retire later snapshots.
func (dr *diskRun) collectorWorksAfterFailedBackup(src *sourceClone, what string) bool {
	env, s := dr.env, dr.env.S
	var last uint32
	s.Go("after", func() {
		w := src.db.NewWriter()
		s.ForceYield(SiteHarnessOp)
		w.Put(dr.ne.newItem(900, "af"))
		s1, _ := src.db.NewSnapshot()
		if len(dr.keys) > 0 {
			w.Delete(dr.ne.probeItem(dr.keys[0]))
		}
		s2, _ := src.db.NewSnapshot()
		if s1 == nil || s2 == nil {
			return
		}
		last = s2.VerifSn()
		s2.Close()
		s1.Close()
		src.db.GC()
	})
	if v := s.Run(); v != VQuiescent {
		env.Res.Inconclusive = v.String()
		return false
	}
	if last != 0 && src.db.GetLastGCSn() != last {
		env.Violate("C06", "collector-stuck-after-failed-backup", "%s: StoreToDisk failed holding the only handle of its snapshot; after two more snapshots were closed and GC() was forced GetLastGCSn()=%d, expected %d (%d snapshots listed)", what, src.db.GetLastGCSn(), last, len(src.db.GetSnapshots()))
	}
	env.Probe("failed_backup_then_collect")
	return true
}

type sourceClone struct {
	db   *nitro.Nitro
	snap *nitro.Snapshot
	lr   *loadResult
}

// cloneSource builds a fresh instance holding the stored content by
// restoring the fault-free backup (already validated by C05's oracle in the
// backup scenario) and opening one more handle for StoreToDisk to consume.
func (dr *diskRun) cloneSource(single ...bool) *sourceClone {
	lr := dr.load(dr.dir, "clone")
	if lr.verdict != VQuiescent || lr.err != nil || lr.panicV != "" {
		dr.env.Violate("C05", "load-failed", "cannot restore the fault-free backup: verdict=%v err=%v panic=%s", lr.verdict, lr.err, lr.panicV)
		return nil
	}
	if d := diffExact(lr.items, dr.content); d != "" {
		dr.env.Violate("C05", "restored-content-differs", "fault-free backup: %s", d)
		return nil
	}
	if len(single) > 0 && single[0] {
		// StoreToDisk consumes the only handle of the snapshot (nobody else holds it)
	} else if !lr.snap.Open() {
		return nil
	}
	// StoreToDisk in delta mode needs writers (collection workers)
	s := dr.env.S
	s.Go("mkwriter", func() {
		lr.db.NewWriter()
		s.ForceYield(SiteHarnessOp)
	})
	s.Run()
	return &sourceClone{db: lr.db, snap: lr.snap, lr: lr}
}

// ---- C12 (b): process death ----------------------------------------------------------------

func (dr *diskRun) checkCrashImages(ds *diskSim) {
	env := dr.env
	if dr.err != nil {
		env.Violate("C05", "store-failed-without-fault", "StoreToDisk returned %v although no I/O fault was injected", dr.err)
		return
	}
	dr.probeDelta()
	n := 0
	onlyI := env.Plan.Knob("only_image", -1)
	for i, img := range ds.images {
		if onlyI >= 0 && i != onlyI {
			continue
		}
		env.Hint = map[string]int{"only_image": i}
		lr := dr.load(img, "img")
		what := fmt.Sprintf("process death %s (image %d of %d)", ds.labels[i], i, len(ds.images))
		switch {
		case lr.verdict == VHang:
			env.Violate("C12", "crash-image-load-hangs", "%s: LoadFromDisk never returns; blocked: %v", what, env.S.Describe())
		case lr.verdict != VQuiescent:
			env.Res.Inconclusive = lr.verdict.String()
			return
		case lr.panicV != "":
			env.Violate("C12", "crash-image-load-panics", "%s: LoadFromDisk panicked: %s", what, lr.panicV)
		case lr.err != nil:
		default:
			if d := diffExact(lr.items, dr.content); d != "" {
				cls := "other"
				for _, k := range []string{"data/files.json", "data/checksums.json", "delta/files.json", "delta/checksums.json", "nitro.json", "close", "write", "open", "mkdir"} {
					if indexOf(ds.labels[i], k) >= 0 {
						cls = k
						break
					}
				}
				env.Violate("C12", "crash-image-loads-as-different-snapshot/"+cls, "%s: LoadFromDisk returned nil error and %s", what, d)
			}
		}
		n++
		env.FaultFired("process_death")
		lr.discard(env)
		if len(env.Res.Violations) > 3 {
			break
		}
	}
	// the complete directory is what survives a death after StoreToDisk returned
	env.Case("evaluations", n)
	env.Case("distinct", n)
	env.Case("nontrivial", 1)
	env.ProbeN("fs_boundaries", ds.boundary)
}

// ---- C19: codec ---------------------------------------------------------------------------------

func genCodec(seed uint64, tier string) *Plan {
	r := NewRng(seed, purposePlan)
	p := &Plan{Scenario: "codec", Seed: seed, Knobs: map[string]int{}}
	p.Knobs["mm"] = r.Intn(2)
	p.Knobs["nitems"] = r.Range(1, 12)
	p.Knobs["big"] = r.Intn(3)
	p.Knobs["zero_reads"] = r.Intn(2)
	p.Knobs["version"] = r.Intn(2)
	p.Knobs["fault"] = r.Intn(3) // 0 none, 1 read error, 2 write error
	p.Sched = SchedPlan{Strategy: "random", P: 0.05, Seed: seed}
	return p
}

func codecLens(r *Rng, big int) int {
	special := []int{1, 2, 3, 4, 5, 255, 256, 257, 1000}
	if big >= 1 {
		special = append(special, 65535, 65536)
	}
	if big >= 2 {
		special = append(special, 70000)
	}
	if r.Bool(0.5) {
		return special[r.Intn(len(special))]
	}
	return r.Range(1, 300)
}

func codecBytes(r *Rng, n int) []byte {
	b := make([]byte, n)
	mode := r.Intn(4)
	for i := range b {
		switch mode {
		case 0:
			b[i] = byte(r.Intn(256))
		case 1:
			b[i] = 0
		case 2:
			b[i] = []byte{0, 0, 0, 1, 0xff, 0, 0, 4}[i%8]
		default:
			b[i] = 0xff
		}
	}
	return b
}

func runCodec(env *Env) {
	plan := env.Plan
	r := NewRng(plan.Seed, purposeFault)
	var ga *GuardAlloc
	cfg := nitro.DefaultConfig()
	if plan.Knob("mm", 0) == 1 {
		ga = NewGuardAlloc(nil, false)
		defer ga.Release()
		ga.NoYield = true
		cfg.UseMemoryMgmt(ga.Malloc, ga.Free)
	}
	db := nitro.NewWithConfig(cfg)
	n := plan.Knob("nitems", 1)
	ver := plan.Knob("version", 1)
	var want [][]byte
	for i := 0; i < n; i++ {
		l := codecLens(r, plan.Knob("big", 0))
		if ver == 0 && l > 65535 {
			l = 65535
		}
		want = append(want, codecBytes(r, l))
	}
	// items are obtained from a nitro instance: put them (unique prefix keeps them distinct), snapshot, iterate
	w := db.NewWriter()
	uniq := map[string]bool{}
	var stored [][]byte
	for _, b := range want {
		if uniq[string(b)] {
			continue
		}
		uniq[string(b)] = true
		w.Put(b)
		stored = append(stored, b)
	}
	sort.Slice(stored, func(i, j int) bool { return bytes.Compare(stored[i], stored[j]) < 0 })
	snap, _ := db.NewSnapshot()
	it := snap.NewIterator()
	buf := make([]byte, 4)
	var stream limitWriter
	stream.errAt = -1
	total := 0
	for _, b := range stored {
		total += 4 + len(b)
	}
	fault := plan.Knob("fault", 0)
	if fault == 2 {
		stream.errAt = r.Intn(total + 1)
	}
	var sum uint32
	var independent uint32
	wrote := 0
	var v0 bytes.Buffer
	encodeFailed := false
	for it.SeekFirst(); it.Valid(); it.Next() {
		itm := (*nitro.Item)(it.GetNode().Item())
		c, err := db.EncodeItem(itm, buf, &stream)
		if err != nil {
			encodeFailed = true
			break
		}
		sum ^= c
		b := itm.Bytes()
		var pre [4]byte
		binary.BigEndian.PutUint32(pre[:], uint32(len(b)))
		independent ^= crc32IEEE(pre[:]) ^ crc32IEEE(b)
		var pre0 [2]byte
		binary.BigEndian.PutUint16(pre0[:], uint16(len(b)))
		v0.Write(pre0[:])
		v0.Write(b)
		wrote++
	}
	it.Close()
	if fault == 2 {
		if stream.fired && !encodeFailed {
			env.Violate("C19", "encode-swallows-write-error", "a write error at byte %d of the stream was not returned by EncodeItem", stream.errAt)
		}
		if stream.fired {
			env.FaultFired("stream_write_error")
		}
	} else if encodeFailed {
		env.Violate("C19", "encode-fails-without-fault", "EncodeItem failed on a healthy stream")
	}
	if !encodeFailed {
		if wrote != len(stored) {
			env.Violate("C19", "iterator-lost-items", "wrote %d of %d items", wrote, len(stored))
		}
		if sum != independent {
			env.Violate("C19", "writer-checksum", "EncodeItem checksums XOR to %d, independent computation gives %d", sum, independent)
		}
		// terminator
		enc := append([]byte{}, stream.buf.Bytes()...)
		src := enc
		if ver == 0 {
			src = append([]byte{}, v0.Bytes()...)
			src = append(src, 0, 0)
		} else {
			src = append(src, 0, 0, 0, 0)
		}
		cr := &chunkReader{b: src, r: r, errAt: -1, zeroes: plan.Knob("zero_reads", 0) == 1}
		if fault == 1 {
			cr.errAt = r.Intn(len(src))
		}
		var rsum uint32
		var got [][]byte
		var derr error
		ended := false
		for i := 0; i <= len(stored); i++ {
			itm, c, err := db.DecodeItem(ver, buf, cr)
			if err != nil {
				derr = err
				break
			}
			if itm == nil {
				ended = true
				break
			}
			rsum ^= c
			got = append(got, append([]byte{}, itm.Bytes()...))
		}
		if fault == 1 && cr.fired {
			env.FaultFired("stream_read_error")
			if derr == nil {
				env.Violate("C19", "decode-swallows-read-error", "a read error at byte %d of %d was not returned by DecodeItem (decoded %d items, ended=%v)", cr.errAt, len(src), len(got), ended)
			}
			// relaxation under faults: what was decoded before the error must be a prefix
			for i := range got {
				if i >= len(stored) || !bytes.Equal(got[i], stored[i]) {
					env.Violate("C19", "decode-wrong-bytes-before-error", "item %d decoded before the injected error differs", i)
					break
				}
			}
		} else {
			if derr != nil {
				env.Violate("C19", "decode-fails-without-fault", "DecodeItem(version %d) returned %v on a healthy stream", ver, derr)
			} else {
				if d := diffExact(got, stored); d != "" {
					env.Violate("C19", "round-trip-differs", "version %d: %s", ver, d)
				}
				if !ended {
					env.Violate("C19", "no-end-of-stream", "terminator not reported as (nil, nil)")
				}
				if ver == 1 && rsum != sum {
					env.Violate("C19", "reader-checksum", "reader checksum %d, writer checksum %d", rsum, sum)
				}
			}
		}
	}
	snap.Close()
	// pure clause: KV helpers (no schedule, stream or fault can affect them)
	for i := 0; i < 20; i++ {
		k1 := codecBytes(r, r.Pick([]int{0, 1, 2, 5, 255, 256, 1000, 65535}))
		v1 := codecBytes(r, r.Intn(40))
		k2 := codecBytes(r, r.Pick([]int{0, 1, 2, 5, 255, 256}))
		if r.Bool(0.3) {
			k2 = append([]byte{}, k1...)
		}
		v2 := codecBytes(r, r.Intn(40))
		e1, e2 := nitro.KVToBytes(k1, v1), nitro.KVToBytes(k2, v2)
		gk, gv := nitro.KVFromBytes(e1)
		if !bytes.Equal(gk, k1) || !bytes.Equal(gv, v1) {
			env.Violate("C19", "kv-not-inverse", "KVFromBytes(KVToBytes(k,v)) != (k,v) for len(k)=%d len(v)=%d", len(k1), len(v1))
		}
		if sign(nitro.CompareKV(e1, e2)) != sign(bytes.Compare(k1, k2)) {
			env.Violate("C19", "comparekv-order", "CompareKV disagrees with bytes.Compare on keys of length %d and %d", len(k1), len(k2))
		}
		env.Case("pure_input_cases", 1)
	}
	env.Case("nontrivial", 1)
	done := false
	env.S.Go("close", func() { db.Close(); done = true })
	env.Finish(env.S.Run(), "")
	_ = done
	_ = unsafe.Pointer(nil)
}

func sign(x int) int {
	switch {
	case x < 0:
		return -1
	case x > 0:
		return 1
	}
	return 0
}

// checkVersion0 rewrites the (already validated) backup in the version-0
// framing ([2-byte length][bytes], no nitro.json) and restores it.
func (dr *diskRun) checkVersion0() {
	env := dr.env
	for _, b := range dr.content {
		if len(b) > 65535 {
			return
		}
	}
	v0 := filepath.Join(env.TempDir(), "v0")
	if err := copyDir(dr.dir, v0); err != nil {
		return
	}
	os.Remove(filepath.Join(v0, "nitro.json"))
	for _, sub := range []string{"data", "delta"} {
		var files []string
		b, err := os.ReadFile(filepath.Join(v0, sub, "files.json"))
		if err != nil || json.Unmarshal(b, &files) != nil {
			continue
		}
		sums := make([]uint32, len(files))
		for i, f := range files {
			fb, err := os.ReadFile(filepath.Join(v0, sub, f))
			if err != nil {
				return
			}
			items, _, perr := parseShard(fb, 1)
			if perr != nil {
				return
			}
			var out []byte
			for _, it := range items {
				var pre [2]byte
				binary.BigEndian.PutUint16(pre[:], uint16(len(it)))
				out = append(out, pre[:]...)
				out = append(out, it...)
				sums[i] ^= crc32IEEE(pre[:]) ^ crc32IEEE(it)
			}
			out = append(out, 0, 0)
			os.WriteFile(filepath.Join(v0, sub, f), out, 0644)
		}
		sb, _ := json.Marshal(sums)
		os.WriteFile(filepath.Join(v0, sub, "checksums.json"), sb, 0644)
	}
	lr := dr.load(v0, "v0")
	switch {
	case lr.verdict != VQuiescent:
		env.Violate("C19", "version0-load-does-not-return", "LoadFromDisk of a version-0 directory: %v", lr.verdict)
		return
	case lr.panicV != "":
		env.Violate("C19", "version0-load-panics", "LoadFromDisk of a version-0 directory panicked: %s", lr.panicV)
		return
	case lr.err != nil:
		env.Violate("C19", "version0-load-fails", "LoadFromDisk of a version-0 directory (no nitro.json, 2-byte lengths, checksums over the 2-byte prefixes) returned %v", lr.err)
	default:
		if d := diffExact(lr.items, dr.content); d != "" {
			env.Violate("C19", "version0-content-differs", "version-0 directory restored as: %s", d)
		}
	}
	env.Probe("version0_restores")
	lr.ne.allocShared = true
	lr.discard(env)
}

// checksumsCannotTell looks at a (damaged) backup directory the way the loader
// does, with the independent parser: if every data and delta file named by
// the manifests has exactly the checksum recorded for it, the checksums give
// the loader no way to notice the damage. Returns a description, or "".
func checksumsCannotTell(dir string) string {
	version := 0
	if b, err := os.ReadFile(filepath.Join(dir, "nitro.json")); err == nil {
		var m map[string]int
		if json.Unmarshal(b, &m) != nil {
			return ""
		}
		version = m["version"]
	}
	desc := ""
	for _, sub := range []string{"data", "delta"} {
		var files []string
		var sums []uint32
		b, err := os.ReadFile(filepath.Join(dir, sub, "files.json"))
		if err != nil {
			if sub == "data" {
				return ""
			}
			continue
		}
		if json.Unmarshal(b, &files) != nil {
			return ""
		}
		cb, err := os.ReadFile(filepath.Join(dir, sub, "checksums.json"))
		if err != nil || json.Unmarshal(cb, &sums) != nil || len(sums) != len(files) {
			return ""
		}
		for i, f := range files {
			fb, err := os.ReadFile(filepath.Join(dir, sub, f))
			if err != nil {
				return ""
			}
			items, sum, perr := parseShardPrefix(fb, version)
			if perr != nil || sum != sums[i] {
				return ""
			}
			desc += fmt.Sprintf("%s/%s: %d items, checksum %d as recorded; ", sub, f, len(items), sum)
		}
	}
	if len(desc) > 300 {
		desc = desc[:300] + "..."
	}
	return "all files read by the loader match their recorded XOR-of-CRC32 checksums (" + desc + ")"
}
