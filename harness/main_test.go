//go:debug randseednop=0
package nsim

import (
	"encoding/json"
	"fmt"
	"os"
	"strconv"
	"testing"
)

func envInt(name string, def int) int {
	if v := os.Getenv(name); v != "" {
		n, err := strconv.Atoi(v)
		if err == nil {
			return n
		}
	}
	return def
}

func envU64(name string, def uint64) uint64 {
	if v := os.Getenv(name); v != "" {
		n, err := strconv.ParseUint(v, 10, 64)
		if err == nil {
			return n
		}
	}
	return def
}

// TestSim runs seeds of one scenario in-process (development entry point).
func TestSim(t *testing.T) {
	name := os.Getenv("NSIM_SCEN")
	if name == "" {
		t.Skip("NSIM_SCEN not set")
	}
	sc := scenarios[name]
	if sc == nil {
		t.Fatalf("unknown scenario %q (have %v)", name, scenarioNames())
	}
	base := envU64("NSIM_SEED", 1)
	n := envInt("NSIM_N", 100)
	from := envInt("NSIM_FROM", 0)
	verbose := os.Getenv("NSIM_VERBOSE") != ""
	nviol := 0
	sigs := map[string]int{}
	hashes := map[string]bool{}
	steps := 0
	for i := from; i < from+n; i++ {
		seed := RunSeed(base, uint64(i))
		plan := sc.Gen(seed, "quick")
		if f := os.Getenv("NSIM_DUMPSEGS"); f != "" && i == from+n-1 {
			dumpSegs, _ = os.Create(f)
		}
		res := RunPlan(t, sc, plan, verbose)
		steps += res.Steps
		hashes[res.TraceHash] = true
		if os.Getenv("NSIM_HASHES") != "" {
			fmt.Printf("H %d %s %d %s\n", i, res.TraceHash, res.Steps, res.Verdict)
		}
		if len(res.Violations) > 0 || verbose {
			nviol++
			for _, v := range res.Violations {
				sigs[v.Property+"/"+v.Sig]++
			}
			if nviol <= envInt("NSIM_SHOW", 1) || verbose {
				res.Plan = plan
				b, _ := json.MarshalIndent(res, "", " ")
				fmt.Println(string(b))
			}
		}
	}
	fmt.Printf("runs=%d violating=%d distinct_traces=%d steps=%d sigs=%v\n", n, nviol, len(hashes), steps, sigs)
}
