#!/bin/bash
# tools/thorough_all.sh [seed] : thorough tier of every property, one after the other
cd "$(dirname "$0")/.." || exit 2
seed="${1:-1}"
for p in C16 C17 C13 C14 C15 C18 C19 C03 C08 C02 C01 C09 C10 C06 C07 C04 C05 C11 C12; do
  echo "=== $p thorough (VERIF_SEED=$seed) $(date -u +%H:%M:%S)"
  VERIF_SEED=$seed ./check $p thorough 2>&1 | grep -E "^violation|^  |runs:|driver:|VIOL|INFRA|KNOWN|WARNING" | grep -v "driver: property" | cut -c1-400
done
echo "=== done $(date -u +%H:%M:%S)"
