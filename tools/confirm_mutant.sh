#!/bin/bash
# tools/confirm_mutant.sh <worktree-dir>
# Confirms a seeded change delivered in a scratch worktree: patch.diff applies to a clean
# checkout, builds with and without -tags verif, the existing suite (nitro + skiplist
# packages) passes with it, and the demonstration fails with it and passes without it.
set -u
d="$1"; cd "$d" || exit 2
export GOFLAGS=-mod=mod GOPROXY=off GOSUMDB=off
log="$d/confirm.log"; : > "$log"
demo=$(ls zz_demo_test.go skiplist/zz_demo_test.go 2>/dev/null | head -1)
[ -z "$demo" ] && { echo "no demo file" | tee -a "$log"; exit 2; }
pkg=.; case "$demo" in skiplist/*) pkg=./skiplist;; esac
# a demonstration that uses the inert hooks is a '//go:build verif' file
tags=""; head -3 "$demo" | grep -q '^//go:build verif' && tags="-tags verif"
pat=$(grep -oE '^func (Test[A-Za-z0-9_]+)' "$demo" | awk '{print $2}' | paste -sd'|')
cp "$demo" /tmp/demo.$$.go; cp patch.diff /tmp/patch.$$.diff
git checkout -q -- . ; git clean -fdq -e patch.diff -e NOTES.md -e confirm.log -e '*.diff' >/dev/null 2>&1
mkdir -p "$(dirname "$demo")"; cp /tmp/demo.$$.go "$demo"
echo "demo=$demo pkg=$pkg tests=$pat tags=[$tags]" | tee -a "$log"
echo "--- demo WITHOUT the change" | tee -a "$log"
timeout 900 go test $tags -vet=off -count=1 -run "^($pat)\$" $pkg >> "$log" 2>&1; rc0=$?
echo "demo without change: exit $rc0" | tee -a "$log"
git apply /tmp/patch.$$.diff || { echo "patch does not apply" | tee -a "$log"; exit 2; }
go build ./... >> "$log" 2>&1 && go build -tags verif ./... >> "$log" 2>&1; rcb=$?
echo "build (both tags): exit $rcb" | tee -a "$log"
echo "--- demo WITH the change" | tee -a "$log"
timeout 900 go test $tags -vet=off -count=1 -run "^($pat)\$" $pkg >> "$log" 2>&1; rc1=$?
echo "demo with change: exit $rc1" | tee -a "$log"
echo "--- existing suite WITH the change (demo excluded)" | tee -a "$log"
mv "$demo" /tmp/demo.$$.go
# skiplist TestInsert is flaky on the unchanged tree (BASELINE.json lists it as flaky): excluded
timeout 3600 go test -vet=off -count=1 -timeout 60m . >> "$log" 2>&1; rcs=$?
timeout 600 go test -vet=off -count=1 -skip '^TestInsert$' ./skiplist >> "$log" 2>&1; rcs2=$?
[ $rcs2 -ne 0 ] && rcs=$rcs2
cp /tmp/demo.$$.go "$demo"
echo "suite with change: exit $rcs" | tee -a "$log"
rm -rf db.dump
if [ $rc0 -eq 0 ] && [ $rcb -eq 0 ] && [ $rc1 -ne 0 ] && [ $rcs -eq 0 ]; then echo "CONFIRMED" | tee -a "$log"; else echo "NOT CONFIRMED" | tee -a "$log"; fi
rm -f /tmp/demo.$$.go /tmp/patch.$$.diff
