#!/bin/bash
# tools/seeded.sh <seeded-dir> <Cxx> [<Cxx>...]
# Applies <seeded-dir>/patch.diff to /repo, runs the quick tier of the named
# checks, and restores /repo. Prints one line per check: <id> exit=<n> sigs=...
set -u
d="$(cd "$1" && pwd)"; shift
cd /repo || exit 2
if ! git diff --quiet; then echo "/repo has uncommitted changes"; exit 2; fi
git apply "$d/patch.diff" || { echo "patch does not apply"; exit 2; }
trap 'git -C /repo checkout -- . ' EXIT
for c in "$@"; do
  out=$(cd /verif && VERIF_BUDGET_S=${VERIF_BUDGET_S:-120} ./check "$c" ${TIER:-quick} 2>&1)
  rc=$?
  sigs=$(echo "$out" | grep -E '^violation:' | sed -E 's/^violation: property=[A-Z0-9]+ sig=//; s/ runs=.*//' | tr '\n' ';')
  echo "$c exit=$rc sigs=[$sigs]"
done
