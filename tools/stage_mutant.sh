#!/bin/bash
# tools/stage_mutant.sh <worktree> <Sxx-Cyy> : copies patch, demonstration and notes of a sub-agent's
# scratch worktree into /verif/seeded/<id>/ (meta.json is written by hand / meta_from_log.py)
set -eu
w="$1"; id="$2"; d="/verif/seeded/$id"; mkdir -p "$d"
cp "$w/patch.diff" "$d/patch.diff"
[ -f "$w/NOTES.md" ] && cp "$w/NOTES.md" "$d/NOTES.md"
for f in "$w"/zz_demo*_test.go "$w"/skiplist/zz_demo*_test.go; do [ -f "$f" ] && cp "$f" "$d/$(echo "${f#$w/}" | tr / _)"; done
ls "$d"
