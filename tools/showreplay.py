#!/usr/bin/env python3
import json,sys
r=json.load(open(sys.argv[1]))
print(r.get('note')); print(r['property'], r['expect'].get('sig'), '|', r['expect'].get('detail'))
for t in r['plan']['tasks']: print(' ',t['name'], 'ph',t.get('phase',0), ' '.join(o['k']+(str(tuple(o['a'])) if o.get('a') else '') for o in t['ops']))
print(' knobs',r['plan']['knobs'])
print(' faults',r['plan'].get('faults'))
s=dict(r['plan']['sched']); f=s.pop('follow',None); print(' sched',s,'follow_len',len(f) if f else 0)
