#!/usr/bin/env python3
# usage: meta_from_log.py <wave.log>  -- merges check results into /verif/seeded/<id>/meta.json
import sys,re,json,os,glob
cur=None
res={}
for l in open(sys.argv[1]):
    l=l.rstrip('\n')
    m=re.match(r'== (\S+)',l)
    if m:
        cur=m.group(1); res.setdefault(cur,[]); continue
    m=re.match(r'(C\d\d) exit=(\d+) sigs=\[(.*)\]',l)
    if m and cur:
        res[cur].append({"check":m.group(1),"tier":"quick","exit":int(m.group(2)),"sigs":m.group(3).strip(';')})
for k,v in res.items():
    ds=glob.glob('/verif/seeded/%s*'%k.split()[0])
    if not ds: continue
    p=os.path.join(ds[0],'meta.json')
    j=json.load(open(p)) if os.path.exists(p) else {}
    old={r['check']:r for r in j.get('results',[])}
    for r in v: old[r['check']]=r
    j['results']=[old[c] for c in sorted(old)]
    json.dump(j,open(p,'w'),indent=1)
    print(ds[0],[ (r['check'],r['exit']) for r in j['results']])
