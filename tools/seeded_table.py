#!/usr/bin/env python3
# Regenerates /verif/seeded/README.md from the meta.json files.
import json,glob,os
rows=[]
for m in sorted(glob.glob('/verif/seeded/*/meta.json')):
    j=json.load(open(m)); d=os.path.basename(os.path.dirname(m))
    rows.append((d,j))
out=["# Seeded breaking changes","",
"Each directory holds `patch.diff` (applies to /repo HEAD with `git -C /repo apply`), the demonstration, and `meta.json`.",
"`tools/seeded.sh <dir> <Cxx>...` applies the patch, runs the quick tier of the named checks and restores /repo.","",
"| id | origin | breaks | what it needs to manifest | caught by (quick tier) | missed by |","|---|---|---|---|---|---|"]
for d,j in rows:
    caught=', '.join('%s [%s]'%(c['check'],c.get('sigs','')) for c in j.get('results',[]) if c.get('exit')==1)
    missed=', '.join(c['check'] for c in j.get('results',[]) if c.get('exit')!=1)
    out.append('| %s | %s | %s | %s | %s | %s |'%(d,j.get('origin',''),j.get('breaks',''),j.get('needs','').replace('|','/'),caught or '-',missed or '-'))
open('/verif/seeded/README.md','w').write('\n'.join(out)+'\n')
print(len(rows),'entries')
