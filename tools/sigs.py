#!/usr/bin/env python3
# usage: NSIM_SCEN=.. NSIM_N=.. NSIM_SHOW=100 nsim.test -test.run TestSim | sigs.py [per-sig-count]
import sys,json
txt=sys.stdin.read()
dec=json.JSONDecoder()
lim=int(sys.argv[1]) if len(sys.argv)>1 else 2
i=0; seen={}
while True:
    j=txt.find('{\n "scenario"',i)
    if j<0: break
    obj,end=dec.raw_decode(txt[j:])
    i=j+end
    for v in obj.get('violations',[]):
        key=v['property']+'/'+v['sig']
        if seen.get(key,0)<lim:
            seen[key]=seen.get(key,0)+1
            print(key, 'seed',obj['seed'], 'knobs',obj['plan']['knobs'], obj['plan']['sched']['strategy']); print('   ',v['detail'][:900])
print(txt[txt.rfind('runs='):].split('\n')[0])
